"""C20 — asset lookup: the named file if it exists, else a pattern match, else None.

(M)   MC_Discovery "asset": every listing (all orders) of up to three names that hit, nearly hit and miss each
      pattern, with a sub-directory, x seven property-value states x six asset kinds: the set of acceptable
      answers is never empty, never contains a non-existent entry, and is {None} exactly when nothing
      matches.  "banner": pack listings of images / non-images x sibling listings.
(S2C) every emitted listing is materialised (native + in-memory, listing order forced) and every asset
      attribute is read twice for every property-value state; the answer must be a member of TLC's answer set
      and exist; SimfilePack.banner() likewise.
(C2S) random directories from a larger vocabulary in mixed case with random property values; validated by TLC
      against the listings the library's own listdir calls returned.
"""
import json
import os
import posixpath
import random

from harness import tlc, core
from harness.core import cps, uncps
from . import discovery_common as dc

KINDS = {"BANNER": "banner", "BACKGROUND": "background", "CDTITLE": "cdtitle", "JACKET": "jacket", "CDIMAGE": "cdimage", "MUSIC": "music"}
VALUES = [("absent", None, None), ("empty", None, None), ("value", None, "Banner.PNG"), ("value", None, "missing.png"),
          ("value", None, "cover [hd].PNG"), ("value", None, "cover[xyz].png"),
          ("value", "img", "b.PNG"), ("value", "img", "nope.png"), ("value", "missing", "b.png")]


def mc_cfg(mode, maxlen, invs):
    return ("SPECIFICATION Spec\nCONSTANTS\n Mode = \"%s\"\n MaxLen = %d\n DoEmit = TRUE\n%sINVARIANT Emit\n" % (
        mode, maxlen, "".join("INVARIANT %s\n" % i for i in invs)))


def run_assets(rid0, kind, listing, subs, values, fmt="sm"):
    """listing: names (files, or a sub-directory when the name is in subs); one record per (asset kind, value)"""
    from simfile.assets import Assets
    from simfile.sm import SMSimfile
    from simfile.ssc import SSCSimfile
    layout = {}
    for n in listing:
        layout[n] = {x: "x" for x in subs[n]} if n in subs else "x"
    order = {"song": list(listing)}
    for n in subs:
        order[os.path.join("song", n) if kind == "native" else "song/" + n] = list(subs[n])
    tree = dc.Tree(kind, {"song": layout}, order=order)
    recs = []
    try:
        d = tree.path("song")
        if kind != "native" and rid0 % 3 == 0:
            d = "song"                       # the directory as a path relative to the filesystem's root (no leading slash)
        import zlib
        for (state0, vdir0, vfile0) in values:
            sf = (SMSimfile if fmt == "sm" else SSCSimfile).blank()
            # per kind: this value, or (in a third of the cases, for some kinds) no value at all - the kinds of ONE Assets object
            # are asked one after the other, some falling back to the patterns, some naming a file
            pick = zlib.crc32(repr((sorted(listing), state0, vdir0, vfile0, kind)).encode("utf-8", "surrogatepass"))
            per_kind = {}
            for i, key in enumerate(KINDS):
                if pick % 3 == 0 and (pick >> (3 + i)) & 1:
                    per_kind[key] = ("absent" if (pick >> (12 + i)) & 1 else "empty", "", "")
                else:
                    per_kind[key] = (state0, vdir0, vfile0)
            for key in KINDS:
                state, vdir, vfile = per_kind[key]
                if state == "absent":
                    sf.pop(key, None)
                elif state == "empty":
                    sf[key] = ""
                else:
                    sf[key] = (vdir + "/" + vfile) if vdir else vfile
            state, vdir, vfile = state0, vdir0, vfile0
            tree.listed.clear()
            try:
                a = Assets(d, simfile=sf, filesystem=tree.fs)
            except Exception as e:  # noqa
                recs.append({"t": "asset", "id": rid0 + len(recs), "kind": "BANNER", "listing": [], "subs": [], "value": {"state": state, "dir": dc.NONE, "file": dc.NONE},
                             "st": type(e).__name__, "ans": [dc.NONE, dc.NONE], "exists": False, "again": True})
                continue
            seen_root = tree.listed[0][1] if tree.listed else list(listing)
            order = list(KINDS.items())
            if pick % 2:
                order.reverse()                  # (asked in either order)
            for key, attr in order:
                state, vdir, vfile = per_kind[key]
                rec = {"t": "asset", "id": rid0 + len(recs), "kind": key, "listing": [cps(n) for n in seen_root],
                       "subs": [{"name": cps(n), "listing": [cps(x) for x in subs[n]]} for n in subs],
                       "value": {"state": state, "dir": dc.n_(vdir), "file": dc.n_(vfile)}, "st": "ok", "ans": [dc.NONE, dc.NONE],
                       "exists": False, "again": True}
                try:
                    ans = getattr(a, attr)
                    again = getattr(a, attr)
                    rec["again"] = (ans == again)
                    if ans is not None:
                        rel = tree.rel(ans).replace(os.sep, "/")
                        parts = rel.split("/")
                        if parts[0] != "song" or len(parts) not in (2, 3):
                            rec["ans"] = [cps("?"), cps(rel)]
                        else:
                            rec["ans"] = [dc.NONE if len(parts) == 2 else cps(parts[1]), cps(parts[-1])]
                        norm = os.path.normpath(ans) if kind == "native" else posixpath.normpath(ans)
                        rec["exists"] = tree.exists(ans) and ans == norm
                        # the listing of a sub-directory as the library saw it
                        for dpath, names in tree.listed:
                            nm = os.path.basename(dpath)
                            for s in rec["subs"]:
                                if uncps(s["name"]) == nm:
                                    s["listing"] = [cps(x) for x in names]
                except Exception as e:  # noqa
                    rec["st"] = type(e).__name__
                recs.append(rec)
    finally:
        tree.close()
    return recs


def run_banner(rid, kind, listing, siblings, packname):
    from simfile.dir import SimfilePack
    layout = {packname: {n: "x" for n in listing}}
    for s in siblings:
        layout[s] = "x"
    order = {packname: list(listing)}
    tree = dc.Tree(kind, layout, order=order)
    rec = {"t": "banner", "id": rid, "listing": [cps(n) for n in listing], "siblings": [cps(n) for n in siblings], "packname": cps(packname),
           "st": "ok", "ans": ["none", dc.NONE]}
    cwd = None
    try:
        where = tree.path(packname)
        import zlib
        pick = zlib.crc32(repr((sorted(listing), sorted(siblings), packname, kind)).encode("utf-8", "surrogatepass"))
        if pick % 3 == 1:
            # the pack named by a path RELATIVE to the current directory / the filesystem's root ("My Pack", "./My Pack", "My Pack/")
            if kind == "native":
                cwd = os.getcwd()
                os.chdir(tree.root)
            where = [packname, "./" + packname, packname + "/"][(pick // 3) % 3]
        sp = SimfilePack(where, filesystem=tree.fs)
        tree.listed.clear()
        b = sp.banner()
        if tree.listed:
            rec["listing"] = [cps(n) for n in tree.listed[0][1]]
        if b is not None:
            rel = tree.rel(b).replace(os.sep, "/").split("/")
            if not tree.exists(b):
                rec["ans"] = ["missing", cps("/".join(rel))]
            elif len(rel) == 2 and rel[0] == packname:
                rec["ans"] = ["in", cps(rel[1])]
            elif len(rel) == 1:
                rec["ans"] = ["beside", cps(rel[0])]
            else:
                rec["ans"] = ["elsewhere", cps("/".join(rel))]
    except Exception as e:  # noqa
        rec["st"] = type(e).__name__
    finally:
        if cwd is not None:
            os.chdir(cwd)
        tree.close()
    return rec


def s2c_asset_job(job):
    rid0, rec, kind = job
    listing = [uncps(x) for x in rec["listing"]]
    subs = {uncps(s["name"]): [uncps(x) for x in s["listing"]] for s in rec["subs"]}
    subs = {k: v for k, v in subs.items() if k in listing}
    return run_assets(rid0, kind, listing, subs, VALUES)


def s2c_banner_job(job):
    rid, rec, kind = job
    return run_banner(rid, kind, [uncps(x) for x in rec["listing"]], [uncps(x) for x in rec["siblings"]], uncps(rec["packname"]))


AVOCAB = ["song-bn.png", "song bg.png", "Song-jacket.png", "banner.png", "Banner.PNG", "xbn.png", "bn.txt", "BANNER.JPG", "bnx.png", "jk_a.png", "JK_b.gif", "ajk_.png", "a-cd.png", "a-CD.PNG", "a-cdx.png",
          "a disc.png", "my title.png", "song.ogg", "SONG.MP3", "song.ogx", "bg.jpg", "song-bg.PNG", "background.bmp", "x cdtitle y.gif", "CDTitle.png",
          "Artist - Song ver.2 bn.png", "Vol.3-cd.png", "Dr. Who jacket.png", "songbn.old.png", "songbg.orig.jpg", "a.b.c.ogg", "jk_.x.png", "cdtitle.v2.gif",
          "banner-bg.png", "Song Jacket-CD.PNG", "cdtitle bn.png", "jk_albumbg.jpg", "Banner.OGG", "Cover [HD].png", "track[1].ogg", "track1.ogg", "logoa.png", "what?.png", "star*.png",
          "jacket.png", "AlbumArt.jpeg", "albumart", "readme.txt", "song.sm", ".hidden", "noext", "music.wav.bak", "tune.oga"]


def c2s_job(job):
    rid0, seed = job
    rng = random.Random(seed)
    kind = rng.choice(["native", "memory"])
    listing = rng.sample(AVOCAB, rng.choice([0, 1, 2, 3, 5, 8]))
    subs = {}
    if rng.random() < 0.6:
        subs["img"] = rng.sample(["B.png", "b.PNG", "banner.png", "song.OGG", "cd.png", "x.txt"], rng.randint(0, 4))
        listing.insert(rng.randint(0, len(listing)), "img")
    if rng.random() < 0.2:
        subs["Gfx"] = ["Jacket.png"]
        listing.append("Gfx")
    values = []
    for _ in range(2):
        r = rng.random()
        if r < 0.2:
            values.append(("absent", None, None))
        elif r < 0.35:
            values.append(("empty", None, None))
        elif r < 0.7:
            base = rng.choice(listing) if listing and rng.random() < 0.7 else rng.choice(AVOCAB + ["logo[ab].png", "track[1].ogg", "cover [hd].png", "wh?t?.png"])
            values.append(("value", None, base.swapcase() if rng.random() < 0.6 else base))
        else:
            d = rng.choice(["img", "Gfx", "missing", "IMG"])
            f = rng.choice(["b.png", "B.PNG", "jacket.PNG", "nope.png", "song.ogg"])
            values.append(("value", d, f))
    return run_assets(rid0, kind, listing, subs, values, fmt=rng.choice(["sm", "ssc"]))


def run(ctx):
    quick = ctx.quick
    recs = []
    for mode, ml, invs, job in (("asset", 2 if quick else 3, ["InvAsset"], s2c_asset_job), ("banner", 3 if quick else 4, ["InvBanner"], s2c_banner_job)):
        res = tlc.run(module="MC_Discovery", cfg=mc_cfg(mode, ml, invs), dirs=dc.DIRS, workers=16, timeout=3000, heap="6g")
        if res.invariant_violated:
            ctx.violation("C20:model:" + res.invariant_violated, "the specification violates %s:\n%s" % (res.invariant_violated, (res.error_text or "")[:1500]), {"mode": "model"})
            continue
        tlc.require_ok(res, "MC_Discovery " + mode)
        ctx.add_tlc("MC_Discovery/" + mode, res)
        cases = res.printed
        jobs = []
        for i, rec in enumerate(cases):
            kinds = ("native", "memory") if not quick else (("native",) if i % 2 else ("memory",))
            for kind in kinds:
                jobs.append((1000 * (len(jobs) + 1) + 10 ** 7 * (1 if mode == "asset" else 2), rec, kind))
        out = core.pmap(job, jobs, chunk=20)
        for o in out:
            recs += o if isinstance(o, list) else [o]
        ctx.notes["s2c_%s_cases" % mode] = len(jobs)
    n = 300 if quick else 8000
    for o in core.pmap(c2s_job, [(3 * 10 ** 7 + 100 * i, ctx.seed * 6007 + i) for i in range(n)], chunk=20):
        recs += o
    for j, r in enumerate(recs):
        r["id"] = j
    verdict = dc.validate(ctx, recs)
    for r in recs:
        cl = verdict[r["id"]]["clause"]
        ctx.traces += 1
        ctx.evaluations += 1
        if r["t"] == "banner" or r["value"]["state"] == "value" or r["ans"][1] != dc.NONE:
            ctx.nontrivial_add(json.dumps({k: v for k, v in r.items() if k != "id"}, sort_keys=True))
        if cl:
            if r["t"] == "asset":
                shown = {"kind": r["kind"], "listing": [uncps(x) for x in r["listing"]], "subs": {uncps(s["name"]): [uncps(x) for x in s["listing"]] for s in r["subs"]},
                         "value": {"state": r["value"]["state"], "dir": uncps(r["value"]["dir"]), "file": uncps(r["value"]["file"])},
                         "answer": [uncps(r["ans"][0]), uncps(r["ans"][1])], "exists": r["exists"], "status": r["st"]}
            else:
                shown = {"listing": [uncps(x) for x in r["listing"]], "siblings": [uncps(x) for x in r["siblings"]], "answer": [r["ans"][0], uncps(r["ans"][1])], "status": r["st"]}
            ctx.violation("C20:" + cl, "recorded %s lookup rejected (%s): %s" % (r["t"], cl, json.dumps(shown)[:800]), {"mode": "record", "record": r})
    ctx.notes["records"] = len(recs)
    ctx.sample({"record": {"kind": recs[5].get("kind"), "listing": [uncps(x) for x in recs[5]["listing"]], "answer": [uncps(x) if isinstance(x, list) else x for x in recs[5]["ans"]]}})
    ctx.exhaustive = True
    ctx.rule = ("S2C: every listing (all orders) of the bounded model x 7 property-value states x 6 asset kinds, and every pack/sibling listing for the "
                "banner; C2S: random directories; one evaluation per lookup; non-trivial = a value is named or an entry is returned; distinct = distinct record")
    ctx.assumptions += [
        "where several entries match, the answer must be one of them (which one depends on listing order and is not claimed)",
        "the documented patterns are applied to the lower-cased name without its extension (music: audio extension); the disc lookup by name is not claimed",
        "specified paths have at most one sub-directory component; '..' and absolute paths are not generated",
    ]


def replay(rec):
    print(rec.get("what"))
    return 1
