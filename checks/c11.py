"""C11 — beat -> time matches the exact timeline for all event interleavings.

(M)   MC_Timing: every timing data with up to MaxEv events on a small beat grid (so every coincidence of
      kinds on one beat, nested / overlapping / touching warps, events at beat 0); the operational
      engine (tagged events in (beat, tag) order, one Advance per event) equals the declarative
      timeline as exact linear forms at every probe under every tag; monotone in (beat, tag); bpm_at;
      a redundant BPM change changes nothing.
(S2C) every timing data TLC reached is built as a real TimingEngine and queried at every probe; on this
      "smooth" sub-domain all times are exact binary fractions and TLC compares them itself.
(C2S) random timing data with arbitrary decimal BPMs / pauses / warp lengths / offsets (redundant BPM
      changes and coincidences forced often) and the corpus: TLC validates bpm_at and returns, for every
      time_at answer, the exact linear form (q elapsed per BPM segment outside warps + pauses counted);
      the harness evaluates it with rationals and compares within 1e-9 s.
"""
import random

from harness import tlc, core
from . import timing_common as tc

INVS = ["InvRefine", "InvMonotone", "InvBpm", "InvRedundantBpm"]
KINDS = ("time", "bpm")
PID = "C11"


def mc_cfg(maxev, grid, first_u, bpm_us, pause_u, warp_lens, invs):
    return ("SPECIFICATION Spec\nCONSTANTS\n MaxEv = %d\n Grid = {%s}\n FirstU = %d\n BpmUs = {%s}\n PauseU = %d\n"
            " WarpLens = {%s}\n DoEmit = TRUE\n%sINVARIANT Emit\n" % (
                maxev, ",".join(map(str, grid)), first_u, ",".join(map(str, bpm_us)), pause_u,
                ",".join(map(str, warp_lens)), "".join("INVARIANT %s\n" % i for i in invs)))


HALF = tc.Q // 2


def model_configs(quick):
    g5 = [0, HALF, 2 * HALF, 3 * HALF, 4 * HALF]
    if quick:
        return [("2ev", (2, g5, 8, [4], tc.U // 2, [HALF, 2 * HALF, 4 * HALF])),
                ("3ev", (3, [0, HALF, 2 * HALF, 3 * HALF], 4, [8], tc.U // 4, [HALF, 2 * HALF, 4 * HALF]))]
    return [("3ev", (3, g5, 8, [4, 16], tc.U // 2, [HALF, 2 * HALF, 4 * HALF])),
            ("4ev-coarse", (4, [0, tc.Q, 2 * tc.Q, 3 * tc.Q], 4, [8], tc.U // 4, [HALF, tc.Q, 2 * tc.Q]))]


def run_model(ctx, pid, invs, kinds, quick, notes_for=None):
    """M + S2C shared by C11/C12/C13"""
    cfgs = model_configs(quick)
    jobs = [dict(module="MC_Timing", cfg=mc_cfg(*args, invs), dirs=tc.DIRS, workers=8, timeout=6000, heap="4g") for _, args in cfgs]
    results = tlc.run_many(jobs, parallel=2)
    rng = random.Random(ctx.seed)
    seen = set()
    items = []
    for (name, args), res in zip(cfgs, results):
        if res.invariant_violated:
            ctx.violation("%s:model:%s" % (pid, res.invariant_violated),
                          "the specification's engine violates %s in config %s:\n%s" % (res.invariant_violated, name, (res.error_text or "")[:2500]),
                          {"mode": "model", "config": name})
            continue
        tlc.require_ok(res, "MC_Timing " + name)
        ctx.add_tlc("MC_Timing/" + name, res)
        for rec in res.printed:
            key = repr(rec["td"])
            if key in seen:
                continue
            seen.add(key)
            items.append(rec["td"])
    if not items:
        raise core.MachineryError("vacuity: MC_Timing emitted no timing data")
    jobs = [(i, tdm, kinds, ctx.seed, notes_for) for i, tdm in enumerate(items)]
    out = core.pmap(s2c_job, jobs, chunk=50)
    recs = [r for r, _ in out]
    tds = {r["id"]: tc.TD.from_json(j) for r, j in out}
    verdict = tc.validate(ctx, [tc.strip_private(r) for r in recs if r["st"] == "ok"])
    tc.judge(ctx, pid, recs, tds, verdict, "s2c")
    ctx.notes["s2c_model_timing_data_replayed"] = len(recs)
    mid = recs[len(recs) // 2]
    ctx.sample({"s2c_timing_data": tds[mid["id"]].show(), "queries": len(mid["queries"]),
                "first_query": {k: v for k, v in mid["queries"][0].items() if k not in ("notes", "out")} if mid["queries"] else None})


def s2c_job(job):
    i, tdm, kinds, seed, notes_for = job
    rng = random.Random(seed * 7919 + i)
    td = tc.from_model(tdm, offset=rng.choice(["0", "0.25", "-0.5"]))
    text = notes_for(rng, td) if notes_for else None
    return tc.record(td, rng, kinds, i, notes_text=text, max_probes=(18 if "beat" in kinds else 60)), td.to_json()


def c2s_job(job):
    i, tdj, kinds, seed, text = job
    rng = random.Random(seed * 104729 + i)
    td = tc.TD.from_json(tdj)
    return tc.record(td, rng, kinds, i, notes_text=text, max_probes=(18 if "beat" in kinds else 40))


def run_c2s(ctx, pid, kinds, n_general, n_smooth, notes_for=None):
    rng = random.Random(ctx.seed * 13 + hash(pid) % 1000)
    tds = {}
    jobs = []
    i = 0
    for _ in range(n_general):
        tds[i] = tc.gen_td(rng, False)
        i += 1
    for _ in range(n_smooth):
        tds[i] = tc.gen_td(rng, True)
        i += 1
    for name, td in tc.corpus_tds():
        tds[i] = td
        i += 1
    # siblings: the same (beat, value) pairs playing a different role (stop <-> delay, stop <-> warp), placed right after the
    # original so that one worker process handles them back to back (state must not leak from one call to the next)
    ordered = {}
    j = 0
    for k in sorted(tds):
        ordered[j] = tds[k]
        j += 1
        td = tds[k]
        if rng.random() < 0.12:
            # the same events under ANOTHER OFFSET, back to back in one process (-1 and -2, among others: values that
            # collide under hash())
            a, b = rng.choice([("-1", "-2"), ("-2", "-1.000"), ("0", "-0.0"), ("1", "1.0"), ("-1", "0"), ("0.5", "-0.5")])
            ordered[j - 1] = tc.TD(td.bpms, td.stops, td.delays, td.warps, a)
            ordered[j] = tc.TD(td.bpms, td.stops, td.delays, td.warps, b)
            j += 1
            continue
        if (td.stops or td.delays) and rng.random() < 0.35:
            how = rng.random()
            if how < 0.5:
                sib = tc.TD(td.bpms, td.delays, td.stops, td.warps, td.offset)
            elif how < 0.8:
                sib = tc.TD(td.bpms, [], td.delays, sorted(set(td.warps) | {(q, v) for q, v in td.stops if not any(q == w for w, _ in td.warps)}), td.offset)
            else:
                sib = tc.TD(td.bpms, td.stops[:-1], td.delays, td.warps, td.offset)
            ordered[j] = sib
            j += 1
    tds = ordered
    for k in list(tds):
        td = tds[k]
        text = notes_for(rng, td) if notes_for else None
        if text is not None:
            from . import c13
            tds[k] = td = c13.td_for_notes(rng, td, text)
        jobs.append((k, td.to_json(), kinds, ctx.seed, text))
    recs = core.pmap(c2s_job, jobs, chunk=20)
    verdict = tc.validate(ctx, [tc.strip_private(r) for r in recs if r["st"] == "ok"])
    tc.judge(ctx, pid, recs, tds, verdict, "c2s")
    ctx.notes["c2s_timing_data"] = len(recs)
    ctx.notes["c2s_smooth_records_decided_entirely_by_tlc"] = sum(1 for r in recs if r["smooth"])
    r = recs[1]
    ctx.sample({"c2s_timing_data": tds[r["id"]].show(), "queries": len(r["queries"]),
                "a_query": {k: v for k, v in r["queries"][len(r["queries"]) // 2].items() if k not in ("notes", "out")} if r["queries"] else None})


def run(ctx):
    run_model(ctx, PID, INVS, KINDS, ctx.quick)
    if ctx.quick:
        run_c2s(ctx, PID, KINDS, 250, 100)
    else:
        run_c2s(ctx, PID, KINDS, 6000, 2000)
    ctx.exhaustive = True
    ctx.rule = ("one evaluation per engine query; S2C: every timing data of the bounded model x every probe (event beats, warp ends, "
                "neighbouring ticks, half/quarter ticks, negative beats) x tags; C2S: random + corpus timing data; "
                "non-trivial = timing data with a stop, delay or warp; distinct = distinct timing data")
    ctx.assumptions += [
        "beats are positions on a 1/26880-beat grid (a tick is 560 of them); events are tick-aligned; warp lengths are read rounded to the nearest tick",
        "for arbitrary decimal BPMs TLC returns the exact linear form of each answer and the harness evaluates it with fractions.Fraction (1e-9 s tolerance); on the smooth sub-domain (BPM 40/80/160/320/640, dyadic pauses and offsets) TLC compares exact integers itself",
        "negative BPMs / stops and unsorted lists are outside the domain (TLC checks the domain predicate)",
    ]


def replay(rec):
    case = rec["case"]
    print(rec.get("what"))
    if case.get("mode") == "td":
        td = tc.TD.from_json(case["td"])
        eng, _ = td.engine()
        print(td.show())
        q = case.get("query") or {}
        if q.get("k") == "time":
            print("time_at ->", float(eng.time_at(tc.beat_of(q["b"]), tc.tag_enum(q["tag"]))))
        for st in getattr(eng, "_state_machine", []):
            print("  ", st)
    return 1
