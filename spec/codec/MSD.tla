-------------------------------- MODULE MSD ---------------------------------
(* The MSD text format as msdparser 2.0.0 reads and writes it (trusted base  *)
(* of simfile; modelled so that text-level claims can be stated, and bound   *)
(* to msdparser itself by exhaustive comparison before it is used).          *)
(* See DESIGN.md Appendix A for the rules in prose.                           *)
EXTENDS Text

Specials == {BSL, SLASH, COLON, SEMI, HASH}
IsNL(c) == c = CR \/ c = LF

(* index of the first special character at or after i (Len+1 if none) *)
RECURSIVE RunEnd(_, _)
RunEnd(t, i) == IF i > Len(t) \/ t[i] \in Specials THEN i ELSE RunEnd(t, i + 1)

(* index of the first CR/LF at or after i (Len+1 if none): where a comment ends *)
RECURSIVE LineEnd(_, _)
LineEnd(t, i) == IF i > Len(t) \/ IsNL(t[i]) THEN i ELSE LineEnd(t, i + 1)

(* stray text (a TEXT token outside any parameter) is an error under strict  *)
(* parsing iff it is not blank and not exactly one U+FEFF                     *)
StrayBad(tok) == tok # <<>> /\ ~AllSpace(tok) /\ tok # <<BOM>>

(* Lexer/parser state:                                                        *)
(*   inside : between a parameter's '#' and its ';'                           *)
(*   comps  : components of the open parameter                                *)
(*   params : completed parameters                                            *)
(*   lastNL : the most recent TEXT token ended in CR or LF                    *)
(*   err    : stray text seen (only recorded under strict parsing)            *)
(*   crash  : input ends in a lone backslash (msdparser fails an assertion)   *)
(*   before : the parameters completed before the first stray-text error     *)
(*            (msdparser is a generator: a consumer sees those first)         *)
St0 == [inside |-> FALSE, comps |-> <<>>, params |-> <<>>, lastNL |-> FALSE,
        err |-> FALSE, crash |-> FALSE, before |-> <<>>]
MarkErr(st) == IF st.err THEN st ELSE [st EXCEPT !.err = TRUE, !.before = st.params]

AppendText(st, tok) ==      \* a TEXT token
  IF st.inside THEN [st EXCEPT !.comps[Len(st.comps)] = @ \o tok, !.lastNL = IsNL(tok[Len(tok)])]
  ELSE [st EXCEPT !.lastNL = IsNL(tok[Len(tok)])]

Complete(st) == [st EXCEPT !.params = Append(@, st.comps), !.comps = <<>>, !.inside = FALSE]
StartParam(st) == [st EXCEPT !.inside = TRUE, !.comps = << <<>> >>]

RECURSIVE LexFrom(_, _, _, _)
LexFrom(t, strict, i, st) ==
  IF i > Len(t) THEN (IF st.inside THEN Complete(st) ELSE st)
  ELSE
  LET c == t[i] IN
  IF c \notin Specials THEN
       LET j == RunEnd(t, i)
           tok == SubSeq(t, i, j - 1)
           st1 == AppendText(st, tok)
       IN LexFrom(t, strict, j,
                  IF ~st.inside /\ strict /\ StrayBad(tok) THEN MarkErr(st1) ELSE st1)
  ELSE IF c = BSL THEN
       IF i = Len(t) THEN [st EXCEPT !.crash = TRUE]
       ELSE IF st.inside
            THEN LexFrom(t, strict, i + 2, [st EXCEPT !.comps[Len(st.comps)] = Append(@, t[i+1])])
            ELSE LexFrom(t, strict, i + 2, LET s1 == [st EXCEPT !.lastNL = IsNL(t[i+1])] IN IF strict THEN MarkErr(s1) ELSE s1)
  ELSE IF c = SLASH THEN
       IF i < Len(t) /\ t[i+1] = SLASH THEN LexFrom(t, strict, LineEnd(t, i), st)
       ELSE IF st.inside
            THEN LexFrom(t, strict, i + 1, [st EXCEPT !.comps[Len(st.comps)] = Append(@, SLASH), !.lastNL = FALSE])
            ELSE LexFrom(t, strict, i + 1, LET s1 == [st EXCEPT !.lastNL = FALSE] IN IF strict THEN MarkErr(s1) ELSE s1)
  ELSE IF c = COLON THEN
       IF st.inside THEN LexFrom(t, strict, i + 1, [st EXCEPT !.comps = Append(@, <<>>)])
       ELSE LexFrom(t, strict, i + 1, LET s1 == [st EXCEPT !.lastNL = FALSE] IN IF strict THEN MarkErr(s1) ELSE s1)
  ELSE IF c = SEMI THEN
       IF st.inside THEN LexFrom(t, strict, i + 1, Complete(st))
       ELSE LexFrom(t, strict, i + 1, LET s1 == [st EXCEPT !.lastNL = FALSE] IN IF strict THEN MarkErr(s1) ELSE s1)
  ELSE \* c = HASH
       IF ~st.inside THEN LexFrom(t, strict, i + 1, StartParam(st))
       ELSE IF st.lastNL THEN LexFrom(t, strict, i + 1, StartParam(Complete(st)))   \* missing ';' recovery
       ELSE LexFrom(t, strict, i + 1, [st EXCEPT !.comps[Len(st.comps)] = Append(@, HASH), !.lastNL = FALSE])

(* Result of tokenizing a text: [st |-> "ok" | "MSDParserError" | "crash", params] *)
Lex(t, strict) ==
  LET st == LexFrom(t, strict, 1, St0) IN
  IF st.err THEN [st |-> "MSDParserError", params |-> <<>>, before |-> st.before]   \* raised at the stray text, before the end is reached
  ELSE IF st.crash THEN [st |-> "crash", params |-> <<>>, before |-> <<>>]
  ELSE [st |-> "ok", params |-> st.params, before |-> st.params]

(* the excluded inputs of C03: an unpaired backslash at the very end *)
EndsInLoneBackslash(t) == Lex(t, FALSE).st = "crash"


-----------------------------------------------------------------------------
(* The text with its stray text removed: every TEXT token that lies outside  *)
(* all parameters is dropped, and so are comments outside parameters (a      *)
(* comment must not swallow what follows once its line break is gone).       *)
(* Result: [kept, plain] where plain says that every parameter start is      *)
(* followed by an ordinary character (the key begins with plain text).       *)
RECURSIVE KeepFrom(_, _, _, _, _)
KeepFrom(t, i, inside, lastNL, acc) ==
  IF i > Len(t) THEN acc
  ELSE
  LET c == t[i] IN
  IF c \notin Specials THEN
       LET j == RunEnd(t, i) IN
       KeepFrom(t, j, inside, IsNL(t[j-1]),
                IF inside THEN [acc EXCEPT !.kept = @ \o SubSeq(t, i, j - 1)] ELSE acc)
  ELSE IF c = BSL THEN
       IF i = Len(t) THEN acc
       ELSE IF inside THEN KeepFrom(t, i + 2, inside, lastNL, [acc EXCEPT !.kept = @ \o <<BSL, t[i+1]>>])
       ELSE KeepFrom(t, i + 2, inside, IsNL(t[i+1]), acc)
  ELSE IF c = SLASH THEN
       IF i < Len(t) /\ t[i+1] = SLASH
       THEN LET j == LineEnd(t, i) IN
            KeepFrom(t, j, inside, lastNL, IF inside THEN [acc EXCEPT !.kept = @ \o SubSeq(t, i, j - 1)] ELSE acc)
       ELSE KeepFrom(t, i + 1, inside, FALSE, IF inside THEN [acc EXCEPT !.kept = Append(@, c)] ELSE acc)
  ELSE IF c = COLON THEN
       KeepFrom(t, i + 1, inside, IF inside THEN lastNL ELSE FALSE,
                IF inside THEN [acc EXCEPT !.kept = Append(@, c)] ELSE acc)
  ELSE IF c = SEMI THEN
       KeepFrom(t, i + 1, FALSE, IF inside THEN lastNL ELSE FALSE,
                IF inside THEN [acc EXCEPT !.kept = Append(@, c)] ELSE acc)
  ELSE \* HASH
       LET starts == ~inside \/ lastNL
           nextPlain == i < Len(t) /\ t[i+1] \notin Specials
           acc1 == [acc EXCEPT !.kept = Append(@, c)]
       IN IF starts THEN KeepFrom(t, i + 1, TRUE, lastNL, [acc1 EXCEPT !.plain = @ /\ nextPlain])
          ELSE KeepFrom(t, i + 1, TRUE, FALSE, acc1)

StrayInfo(t) == KeepFrom(t, 1, FALSE, FALSE, [kept |-> <<>>, plain |-> TRUE])
StrayRemoved(t) == StrayInfo(t).kept
KeysPlain(t) == StrayInfo(t).plain

-----------------------------------------------------------------------------
(* MSDParameter.serialize: '\' -> '\\', then '//' -> '\//', ':' -> '\:', ';' -> '\;' *)
RECURSIVE EscFrom(_, _)
EscFrom(c, i) ==
  IF i > Len(c) THEN <<>>
  ELSE IF c[i] = BSL THEN <<BSL, BSL>> \o EscFrom(c, i + 1)
  ELSE IF c[i] = SLASH /\ i < Len(c) /\ c[i+1] = SLASH THEN <<BSL, SLASH, SLASH>> \o EscFrom(c, i + 2)
  ELSE IF c[i] = COLON THEN <<BSL, COLON>> \o EscFrom(c, i + 1)
  ELSE IF c[i] = SEMI THEN <<BSL, SEMI>> \o EscFrom(c, i + 1)
  ELSE <<c[i]>> \o EscFrom(c, i + 1)
Esc(c) == EscFrom(c, 1)

SerParam(comps) == <<HASH>> \o JoinWith([k \in DOMAIN comps |-> Esc(comps[k])], <<COLON>>) \o <<SEMI>>

-----------------------------------------------------------------------------
(* msdparser's escaping gaps, in the closed form the properties give:        *)
(* a value containing '///', or a line break followed (through ':', ';', '\' *)
(* only) by '#'.                                                              *)
RECURSIVE HashAfterNLFrom(_, _, _)
HashAfterNLFrom(v, i, armed) ==
  IF i > Len(v) THEN FALSE
  ELSE IF IsNL(v[i]) THEN HashAfterNLFrom(v, i + 1, TRUE)
  ELSE IF v[i] = HASH THEN (armed \/ HashAfterNLFrom(v, i + 1, FALSE))
  ELSE IF v[i] \in {COLON, SEMI, BSL} THEN HashAfterNLFrom(v, i + 1, armed)
  ELSE HashAfterNLFrom(v, i + 1, FALSE)

InEscapeGap(v) == Contains(v, <<SLASH, SLASH, SLASH>>) \/ HashAfterNLFrom(v, 1, FALSE)
KeyInGap(k) == HasChar(k, HASH)

(* layout-aware classification: does this parameter, written after a line    *)
(* break, read back as itself?  Used only to attribute a failure to the       *)
(* dependency (known finding D14), never to shrink a generator's domain.      *)
ParamRoundTrips(comps) ==
  LET r == Lex(<<LF>> \o SerParam(comps) \o <<LF>>, TRUE) IN r.st = "ok" /\ r.params = <<comps>>
=============================================================================
