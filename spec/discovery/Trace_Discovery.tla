--------------------------- MODULE Trace_Discovery --------------------------
(* Validates recorded uses of SimfileDirectory / SimfilePack / opendir / openpack /  *)
(* Assets / SimfilePack.banner.  Listings are the ones the library's own listdir     *)
(* calls returned (recorded by the filesystem proxy).                                 *)
EXTENDS Discovery, Json, IOUtils, TLC
VARIABLE i
Recs == ndJsonDeserialize(IOEnv.TRACE_FILE)
N == Len(Recs)

(* outcome of opening one simfile directory with loader options: files flagged `stray` hold stray text *)
OpenOutcome(listing, strayNames, ignoreDup, strict) ==
  LET v == DirView(listing, ignoreDup) IN
  IF v.st # "ok" THEN [st |-> v.st, file |-> NoneName]
  ELSE IF OpenTarget(v) = NoneName THEN [st |-> "FileNotFoundError", file |-> NoneName]
  ELSE IF strict /\ \E k \in DOMAIN strayNames : strayNames[k] = OpenTarget(v) THEN [st |-> "MSDParserError", file |-> OpenTarget(v)]
  ELSE [st |-> "ok", file |-> OpenTarget(v)]

DirClause(r) ==
  LET v == DirView(r.listing, r.ignore)  o == OpenOutcome(r.listing, r.stray, r.ignore, r.strict) IN
  IF r.st # v.st THEN "duplicate-handling"
  ELSE IF v.st # "ok" THEN (IF r.opendir.st = v.st THEN "" ELSE "opendir-outcome")
  ELSE IF r.sm # v.sm THEN "sm-path"
  ELSE IF r.ssc # v.ssc THEN "ssc-path"
  ELSE IF r.simfilepath # OpenTarget(v) THEN "simfile-path"
  ELSE IF r.open.st # o.st THEN (IF o.st = "ok" /\ r.open.st = "MSDParserError" THEN "strict-option-not-passed-through" ELSE "open-outcome")
  ELSE IF o.st = "ok" /\ r.open.file # o.file THEN "opened-the-wrong-file"
  ELSE IF r.open2.st # "none" /\ r.open2.st # OpenOutcome(r.listing, r.stray, r.ignore, ~r.strict).st THEN "second-open-with-other-options"
  ELSE IF r.opendir.st # o.st THEN "opendir-outcome"
  ELSE IF o.st = "ok" /\ (r.opendir.file # o.file \/ r.opendir.path # o.file) THEN "opendir-file"
  ELSE IF r.encodings # <<>> /\ \E k \in DOMAIN r.encodings : r.encodings[k] # r.enc THEN "encoding-option-not-passed-through"
  ELSE ""

(* opening every directory of a pack in order: outcomes up to and including the first failure *)
RECURSIVE Outcomes(_, _, _, _)
Outcomes(ds, k, ignoreDup, strict) ==
  IF k > Len(ds) THEN <<>>
  ELSE LET o == OpenOutcome(ds[k].sub, ds[k].stray, ignoreDup, strict) IN
       IF o.st # "ok" THEN <<[dir |-> ds[k].name, st |-> o.st, file |-> o.file]>>
       ELSE <<[dir |-> ds[k].name, st |-> "ok", file |-> o.file]>> \o Outcomes(ds, k + 1, ignoreDup, strict)
PackClause(r) ==
  LET ds == PackDirs(r.entries)  exp == Outcomes(ds, 1, r.ignore, r.strict) IN
  IF r.dirs # PackView(r.entries) THEN "pack-directories"
  ELSE IF r.name # r.packname THEN "pack-name"
  ELSE IF r.simfiles # exp THEN (IF Len(r.simfiles) = Len(exp) /\ \E k \in DOMAIN exp : exp[k].st = "ok" /\ r.simfiles[k].st = "MSDParserError"
                                 THEN "strict-option-not-passed-through" ELSE "pack-simfiles")
  ELSE IF r.simfiles2 # exp THEN "second-walk-of-the-same-pack-object"
  ELSE IF r.openpack # exp THEN (IF Len(r.openpack) = Len(exp) /\ \E k \in DOMAIN exp : exp[k].st = "ok" /\ r.openpack[k].st = "MSDParserError"
                                 THEN "openpack-option-not-passed-through" ELSE "openpack")
  ELSE IF r.encodings # <<>> /\ \E k \in DOMAIN r.encodings : r.encodings[k] # r.enc THEN "encoding-option-not-passed-through"
  ELSE ""

AssetClause(r) ==
  LET ans == AssetAnswers(r.kind, r.listing, r.subs, r.value) IN
  IF r.st # "ok" THEN "asset-raised"
  ELSE IF r.ans \notin ans THEN
       (IF r.ans[2] # NoneName /\ ~r.exists THEN "answer-does-not-exist"
        ELSE IF <<NoneName, NoneName>> \in ans THEN "answer-although-nothing-matches"
        ELSE IF r.ans = <<NoneName, NoneName>> THEN "none-although-an-entry-matches" ELSE "wrong-entry")
  ELSE IF r.ans[2] # NoneName /\ ~r.exists THEN "answer-does-not-exist"
  ELSE IF ~r.again THEN "second-lookup-differs"
  ELSE ""
BannerClause(r) == IF r.st # "ok" THEN "banner-raised"
                   ELSE IF r.ans \in BannerAnswers(r.listing, r.siblings, r.packname) THEN "" ELSE "pack-banner"

Clause(r) == CASE r.t = "dir" -> DirClause(r) [] r.t = "pack" -> PackClause(r) [] r.t = "asset" -> AssetClause(r) [] r.t = "banner" -> BannerClause(r)
Init == i = 1
Next == i <= N /\ PrintT(ToJson([id |-> Recs[i].id, clause |-> Clause(Recs[i])])) /\ i' = i + 1
Spec == Init /\ [][Next]_i
=============================================================================
