---------------------------- MODULE Trace_System ----------------------------
(* Trace validation of whole user sessions against System.tla: a genuine trace  *)
(* SPECIFICATION (state variables, one action per recorded event), many sessions   *)
(* per TLC run.  Each session is a sequence of events                               *)
(*    [op, ...arguments..., res, after |-> [fmt, items, charts]]                     *)
(* logged at the return of each public call (also on the error path).  An event is    *)
(* consumed by the System action of the same name with the logged arguments; the       *)
(* action fixes the successor state, which must equal the logged one.  When no action   *)
(* matches, the session is REJECTED at that event (the verdict names the event) and     *)
(* the validator moves on to the next session, so one rejection never hides the rest.   *)
EXTENDS System, Json, IOUtils, TLC
VARIABLES tid, l
Sessions == ndJsonDeserialize(IOEnv.TRACE_FILE)
NS == Len(Sessions)
tvars == <<obj, disk, fs, tid, l>>

Empty == [fmt |-> "sm", items |-> <<>>, charts |-> <<>>]
Evs == Sessions[tid].events
Ev == Evs[l]
After(e) == [fmt |-> e.after.fmt, items |-> e.after.items, charts |-> e.after.charts]

(* the System action an event stands for *)
Act(e) ==
  CASE e.op = "create" -> Create(After(e))
    [] e.op = "load" -> LoadText(e.text, e.strict, e.entry, e.res)
    [] e.op = "setkey" -> SetKey(e.k, e.v)
    [] e.op = "delkey" -> DelKey(e.k, e.res)
    [] e.op = "getattr" -> GetAttr(e.name, e.res)
    [] e.op = "setattr" -> SetAttr(e.name, e.v)
    [] e.op = "delattr" -> DelAttr(e.name, e.res)
    [] e.op = "appendchart" -> AppendChart(e.chart)
    [] e.op = "removechart" -> RemoveChart(e.j)
    [] e.op = "swapcharts" -> SwapCharts(e.i, e.j)
    [] e.op = "setchartitem" -> SetChartItem(e.j, e.name, e.v)
    [] e.op = "delchartitem" -> DelChartItem(e.j, e.k, e.res)
    [] e.op = "setchartfield" -> SetChartField(e.j, e.f, e.v)
    [] e.op = "setchartextra" -> SetChartExtra(e.j, e.extra)
    [] e.op = "save" -> Save(e.text)
    [] e.op = "reopen" -> Reopen(e.detect)
    [] e.op = "tossc" -> ToSSC(e.tmpl, e.ctmpl, e.res)
    [] e.op = "tosm" -> ToSM(e.tmpl, e.ctmpl, e.beh, e.res)
    [] e.op = "readnotes" -> ReadNotes(e.j, e.res)
    [] e.op = "writenotes" -> WriteNotes(e.j, e.notes, e.cols)
    [] e.op = "countnotes" -> CountNotes(e.j, e.res)
    [] e.op = "readtiming" -> ReadTiming(e.name, e.res)
    [] e.op = "timenotes" -> TimeNotes(e.j, e.opt, e.res)
    [] e.op = "writefile" -> WriteFile(e.name, e.text)
    [] e.op = "openfile" -> OpenFile(e.name, e.strict, e.res)
    [] e.op = "mutatefile" -> MutateFile(e.name, e.out, e.bak, e.edits, e.body, e.res, e.texts)

(* a save of an object outside the serializer's domain (escaping gaps, chart without notes) is skipped, not judged *)
OutOfDomain(e) == \/ e.op = "save" /\ ~Saveable(obj)
                  \/ e.op = "tosm" /\ ~ToSMInDomain(obj, e.tmpl, e.ctmpl, e.beh)
                  \/ e.op = "countnotes" /\ ~CountInDomain(obj, e.j)
                  \/ e.op = "timenotes" /\ ~TimeNotesInDomain(obj, e.j)
                  \/ e.op = "readtiming" /\ ~ReadTimingInDomain(obj, e.name)
                  \/ e.op = "writefile" /\ ~Saveable(obj)
                  \/ e.op = "mutatefile" /\ ~MutateInDomain(e.name, e.out, e.bak, e.edits)
FsOps == {"writefile", "openfile", "mutatefile"}
LoggedFs(e) == [i \in DOMAIN e.fsafter |-> [n |-> e.fsafter[i].n, t |-> e.fsafter[i].t]]

Consume == /\ tid <= NS /\ l <= Len(Evs) /\ ~OutOfDomain(Ev)
           /\ Act(Ev)
           /\ obj' = After(Ev)                       \* the logged state is the state the specification reaches
           /\ (IF Ev.op \in FsOps THEN FAsSet(fs') = FAsSet(LoggedFs(Ev))     \* ... and so are the files
               ELSE UNCHANGED fs)
           /\ l' = l + 1 /\ tid' = tid
Skip == /\ tid <= NS /\ l <= Len(Evs) /\ OutOfDomain(Ev)
        /\ PrintT(ToJson([id |-> Sessions[tid].id, verdict |-> "domain", at |-> l, op |-> Ev.op]))
        /\ tid' = tid + 1 /\ l' = 1 /\ obj' = Empty /\ disk' = <<>> /\ fs' = <<>>
Reject == /\ tid <= NS /\ l <= Len(Evs) /\ ~OutOfDomain(Ev)
          /\ ~ENABLED Consume
          /\ PrintT(ToJson([id |-> Sessions[tid].id, verdict |-> "REJECT", at |-> l, op |-> Ev.op]))
          /\ tid' = tid + 1 /\ l' = 1 /\ obj' = Empty /\ disk' = <<>> /\ fs' = <<>>
Accept == /\ tid <= NS /\ l > Len(Evs)
          /\ PrintT(ToJson([id |-> Sessions[tid].id, verdict |-> "ACCEPT", at |-> l - 1, op |-> ""]))
          /\ tid' = tid + 1 /\ l' = 1 /\ obj' = Empty /\ disk' = <<>> /\ fs' = <<>>
TraceInit == obj = Empty /\ disk = <<>> /\ fs = <<>> /\ tid = 1 /\ l = 1
TraceNext == Consume \/ Skip \/ Reject \/ Accept
TraceSpec == TraceInit /\ [][TraceNext]_tvars
InvType == tid <= NS => TypeOK
=============================================================================
