"""Generates /verif/MANIFEST.json from the table below (python -m harness.manifest)."""
import json
import os

from .core import VERIF

BASELINE = ("cd /repo && /venv/bin/python -m pytest -ra -q -p no:cacheprovider --timeout=900 "
            "--continue-on-collection-errors")

TECH = ("explicit TLA+ specification checked with TLC (bounded model), bound to the code by "
        "spec->code replay of TLC-emitted transitions and code->spec TLC trace validation")

# pid -> (engine, design section, level text, level note)
CLAIMED = {
    "C18": ("object", "6/C18",
            "TLC explores the whole Object machine (every reachable mapping x every operation) for 12 "
            "kind x property configurations with all clauses as invariants; every distinct transition is "
            "replayed on the real object; random long histories over all known properties are validated "
            "step by step against the same specification by TLC.",
            "bounded: 3 keys, 3 values per configuration; histories sampled beyond that. msdparser reads str(obj) back."),
    "C01": ("codec", "6/C01",
            "TLC checks the serialize/tokenize/parse cycle of the Codec specification on every SM object reachable by edit "
            "actions in bounded configurations (strict acceptance, parameter structure, round trip, stability, detection as "
            "invariants); every such object is rebuilt and cycled through the real code and compared with the text, parameters "
            "and object TLC computed; random edit histories on real objects (blank, corpus, empty; rich Unicode) are validated "
            "record by record by TLC, which re-tokenizes the emitted text with its own MSD model.",
            "bounded alphabets in the model; sampling beyond; msdparser is the trusted tokenizer (its model is bound to it in C03)."),
    "C02": ("codec", "6/C02",
            "As C01 for SSC: chart items in every order with deliberately equal / empty / identical-object values, NOTES or "
            "NOTES2, nothing-dropped and SSCChart.from_str clauses; S2C builds each object with fresh and with shared string objects.",
            "bounded alphabets in the model; sampling beyond; msdparser trusted."),
    "C03": ("codec", "6/C03",
            "MSD.tla (tokenizer model) is compared with msdparser on every text over 10 symbols up to the bound; MC_Load enumerates "
            "every symbol text with strictness / entry-agreement / file-name invariants and each is loaded through 13+ real entry "
            "points x strict; generated, corpus and mutated texts are loaded through all entry points and validated by TLC "
            "(tokenizer model + parse rules + format rule).",
            "ASCII/Latin-1 letter case only; texts ending in a lone backslash excluded; msdparser trusted and bound."),
    "C04": ("codec", "6/C04",
            "MC_Load's InvCycle (load, canonical save, load, save) on every bounded text; each loadable one is cycled through the "
            "real code in both formats and compared with the object TLC expects; generated/corpus/truncated/spliced texts are "
            "cycled for real and validated by TLC from the source text onwards.",
            "escaping-gap values and SSC charts without note data excluded by spec predicates; long texts at parameter level."),
    "C07": ("notedata", "6/C07",
            "TLC checks, on every grid of a bounded model (players x measures x rows x columns, keysound brackets) rendered "
            "under 8 layouts, that decoding gives exactly the documented notes in strict position order with the right column "
            "count; every grid text is iterated by the real NoteData (notes, columns, str, all six operators on every pair); "
            "generated well-formed texts over the whole quantifier and corpus windows are decoded for real and re-decoded by TLC.",
            "well-formed texts only; C2S texts capped at a few thousand characters; CPython strip/splitlines sets transcribed in Text.tla."),
    "C08": ("notedata", "6/C08",
            "TLC checks on every sorted stream of a bounded model (incl. the empty one, absent players, mixed denominators) that "
            "the declarative encoding decodes back, has 4 x lcm rows per measure with blank skipped measures/players, and is "
            "stable; from_notes is run on each stream and compared; random streams and decoded corpus/generated notes are "
            "encoded for real and the emitted text is decoded and shape-checked by TLC.",
            "streams sorted with unique positions (TLC checks the precondition); measure sizes capped for TLC."),
    "C09": ("grouping", "6/C09",
            "TLC runs the operational join machine (held columns, buffer, released items; one action per note) on every stream "
            "of a small grid under all nine orphan policies and checks at every step / at the end that it refines the declarative "
            "pairing rule; modes and counts are checked per stream; every terminal state is replayed through group_notes; all grid "
            "streams x the option space, random ill-formed streams and corpus charts are grouped/counted for real and every call is "
            "recomputed by TLC.",
            "grid: 2 columns x 3-4 rows x 5 cell kinds; quick rotates through the option space per stream; single-player sorted streams."),
    "C10": ("grouping", "6/C10",
            "TLC checks per grid stream that the ungroup machine applied to the specified groups restores the included notes minus "
            "dropped orphans for every type set, mode, join, 9 group policies and 3 ungroup policies, and that hand-built groups with a "
            "note inside a hold raise/pass/drop it; real ungroup_notes outputs of grid, random, corpus and hand-built inputs are "
            "validated by TLC from the original stream.",
            "tails carry no keysound index; per-type grouping claims multiset + non-decreasing beats only."),
    "C11": ("timing", "6/C11",
            "TLC checks on every timing data of a bounded model (<= 3-4 events of every kind on a half-beat grid: all coincidences, "
            "nested/overlapping/touching warps, events at 0) that the operational tagged-event engine equals the declarative timeline "
            "as exact linear forms at every probe and tag, monotonicity, bpm_at and redundant-BPM invariance; each model timing data is "
            "replayed in the real engine; random decimal timing data and the corpus are queried for real and TLC returns the exact linear "
            "form of every answer, evaluated with rationals to 1e-9 s.",
            "positions on a 1/768-beat grid; numeric evaluation of TLC's linear forms with fractions.Fraction is the only arithmetic outside the spec."),
    "C12": ("timing", "6/C12",
            "beat_at is specified as a relation (ticks present at a time; max by default, min for WARP, nearest tick otherwise); TLC "
            "checks the specified engine satisfies it on the whole bounded model, round trip, pauses, monotonicity; every real beat_at "
            "answer (boundary times = the engine's own time_at, mid-pause times, random exact times) is decided by TLC symbolically by "
            "componentwise comparison of linear forms, with no numeric tolerance.",
            "tags other than WARP/default may return any present tick; times below 1e5 s."),
    "C13": ("timing", "6/C13",
            "TLC checks on the bounded model that the engine's hittability formulation equals 'inside the warp union and no pause on "
            "that beat'; real hittable() answers and time_notes outputs (order, type, untouched fields, times) for model, random and "
            "corpus timing data with generated routine/keysounded note data are decided by TLC.",
            "note beats on the 1/768-beat grid; times via linear forms (exact on the smooth sub-domain)."),
    "C05": ("library", "6/C05",
            "TLC explores the mutate protocol (one action per step of the code: name check, one decode attempt per tried encoding, "
            "body, render, open/write/close per file) over an abstract filesystem for every content class x name configuration x tried "
            "list x edit script, with detection, saved-content, backup, untouched-files and name-clash clauses as invariants in every "
            "state; terminal states are replayed on native and in-memory filesystems; generated scenarios run against a recording proxy "
            "filesystem whose per-call snapshots are validated by TLC, including the no-op second mutate.",
            "Python codecs decide 'decodes' (the model's decodability table is computed from the concrete contents); loader/serializer judged by C01-C04."),
    "C06": ("library", "6/C06",
            "The same protocol model with body outcomes (Exception, KeyboardInterrupt, SystemExit, CancelMutation at every position), "
            "unserializable / unencodable simfiles and a fault at the k-th filesystem call: TLC checks I1-I4 in every state and must find "
            "the I2 counterexample for the pre-repair protocol (non-vacuity); failure scenarios are replayed for real; per base scenario "
            "every fault point of the fault-free run is enumerated against the fault-injecting proxy and each observed state is validated by TLC.",
            "fault_enumeration-strength evidence inside a model_checking claim; a fault is an OSError raised before the call takes effect."),
    "C16": ("convert", "6/C16",
            "TLC enumerates bounded SM sources (timing strings incl. negative BPMs/stops, FREEZES/ANIMATIONS aliases, SSC-only keys "
            "present, 0..2 charts, custom templates) and checks the specified conversion: every source property kept, template supplies "
            "the rest, charts in order, NotImplementedError iff a negative value; each case is converted for real and compared; random "
            "sources (blank, corpus, generated) with and without templates are converted and each recorded call is validated by TLC incl. "
            "source/templates unmodified, no shared mutable object (edits after the call do not leak), same timing data and notes through "
            "the library's readers, result loads back equal.",
            "well-formed timing strings; FREEZES is the recorded known finding."),
    "C17": ("convert", "6/C17",
            "TLC enumerates bounded SSC sources (one representative SSC-only key per kind at simfile and chart level, every order, "
            "empty/default/padded/non-default) under every total or partial behaviour mapping; the conversion fold equals its declarative "
            "statement, InvalidPropertyException names the first offending property, NotImplementedError iff warps, no other outcome; "
            "every case is replayed; random sources x mappings x templates and sm_to_ssc round trips are validated call by call by TLC.",
            "SSC-only values are strings (key-only None outside the domain); chart keys SM cannot hold are the recorded known finding; blank-only WARPS unclaimed."),
    "C14": ("beat", "6/C14",
            "TLC checks on every tick of the +-2000-beat range that the three-decimal form reads back as the same tick, is strictly "
            "increasing (injective), and periodic (which extends it to the whole grid), and on every pair of small rationals under "
            "every operator that arithmetic is exact, closed and satisfies the algebraic identities; every tick and every (a, op, b) is "
            "replayed on real Beat objects with Beat / int / Fraction operands; random constructions from exact and inexact inputs, "
            "operations, event lists and timing strings (through BeatValues and TimingData) are validated record by record by TLC.",
            "32-bit TLC integers: inexact inputs are exact binary fractions and short decimals; arbitrary floats are not decided."),
    "C15": ("timingsource", "6/C15",
            "TLC enumerates the configuration space (kind x version x chart x 3^11 chart-property states: all 7.4 M in thorough) and "
            "checks that the selection rule is symmetric in the eleven properties and stable under irrelevant edits, and on the quotient "
            "(property patterns x OFFSET/DISPLAYBPM states on both sides x BPMS sizes x ignore) that no field ever comes from the source "
            "not chosen; every quotient configuration is built as real objects with distinct sentinels per side and TimingData / "
            "displaybpm are compared with TLC's answer; random configurations over the full space with values random within each "
            "syntactic class are validated by TLC.",
            "sentinel values make mixing visible; displayed-BPM clause only when the chosen source has BPMS."),
    "C19": ("discovery", "6/C19",
            "TLC enumerates every listing (all orders) of up to 3-4 names from an alphabet of simfile names in mixed case and near "
            "misses, and every pack of up to three entries of seven kinds, with the directory / pack views as invariants; each is "
            "materialised on a native temp directory and an in-memory PyFilesystem behind a proxy that forces the listing order and "
            "records every listdir / open; SimfileDirectory, SimfilePack, opendir, openpack are run with strict, ignore_duplicate and "
            "encoding options and validated by TLC against the listings the library saw; random trees up to depth 3.",
            "listing order is an input (logged from the library's own listdir calls); option pass-through observed via stray text and recorded open encodings."),
    "C20": ("discovery", "6/C20",
            "TLC enumerates listings of names that hit / nearly hit / miss each asset pattern x property-value states x asset kinds and "
            "pack / sibling listings for the banner, with 'answer set non-empty, existing entries only, None iff nothing matches' as "
            "invariants; each case is materialised on both filesystems and every asset is read twice; answers must be members of TLC's "
            "answer set and exist; random directories in mixed case.",
            "which of several matching entries is returned is not claimed; disc lookup by name not claimed."),
}

PENDING = {}

_SESS = "Also, as part of the System engine (DESIGN.md 11.8-11.9): recorded user sessions are validated event by event as behaviours of System.tla by the trace specification Trace_System.tla"
_MC = "and every transition of the bounded session model MC_System.tla (TLC BFS, system invariants) is stepped through the library"
SYSTEM_PART = {
    "C04": _SESS + " (load / save / re-open, also through named files opened by file name) " + _MC + " (focus save: InvSaveReopen).",
    "C05": _SESS + " (simfile.mutate on named files with output and backup names: the files afterwards are serializations of the edited / the original simfile).",
    "C06": _SESS + " (simfile.mutate whose body is cancelled or raises: no file changes, the body's own exception escapes).",
    "C07": _SESS + " (reading a chart's notes) " + _MC + ".",
    "C08": _SESS + " (writing a note stream into a chart).",
    "C09": _SESS + " (counting a chart's notes) " + _MC + ".",
    "C13": _SESS + " (time_notes of a chart after edits of timing properties: source rule + parsers + timeline + note data composed; times exact in 1/286720 s on the smooth sub-domain) " + _MC + " (focus timing: SourceIsolation as action property, InvTimesMonotone).",
    "C14": _SESS + " (reading timing lists) " + _MC + ".",
    "C15": _SESS + " (which object supplies the timing data, observed through the times of the chart's notes) " + _MC + " (focus timing: SourceIsolation).",
    "C16": _SESS + " (sm_to_ssc inside a session) " + _MC + " (focus tossc: InvConvertRoundTrip).",
    "C17": _SESS + " (ssc_to_sm under a policy inside a session) " + _MC + " (focus tosm).",
    "C18": _SESS + " (attribute / key edits with aliases, chart edits) " + _MC + " (focus edit: InvViews).",
}

ENGINES = [
    ("system", "spec/system", ["C04", "C05", "C06", "C07", "C08", "C09", "C13", "C14", "C15", "C16", "C17", "C18"],
     "System.tla (one state machine over a simfile object, the text on disk and the named files of a session: load/create, key and attribute edits with aliases, chart edits, save, re-open, serialize into a file, open by file name, mutate with output / backup / cancelled / failing body, sm_to_ssc, ssc_to_sm under a policy, reading / writing / counting notes, reading timing lists, timing a chart's notes through the split-timing source rule + the timeline) + MC_System.tla (bounded BFS over sessions, system invariants, every transition replayed on the library) + Trace_System.tla (stateful trace specification: one action per recorded event, many sessions per TLC run)"),
    ("discovery", "spec/discovery", ["C19", "C20"], "Discovery.tla (directory / pack views, asset answer sets, pack banner) + MC_Discovery + Trace_Discovery + order-forcing recording filesystem proxy"),
    ("timingsource", "spec/timingsource", ["C15"], "TimingSource.tla (source rule, all-or-nothing timing data, displayed BPM classes) + MC_TimingSource + Trace_TimingSource"),
    ("beat", "spec/beat", ["C14"], "Beat.tla (exact / snapped construction, Str3 closed form, arithmetic, decimal and event-list parsing) + MC_Beat + Trace_Beat"),
    ("convert", "spec/convert", ["C16", "C17"],
     "Convert.tla (kind tables, behaviour decision, conversion folds + declarative statement) + MC_Convert (TLC BFS) + Trace_Convert"),
    ("library", "spec/library", ["C05", "C06"],
     "Library.tla + MC_Library (mutate protocol with faults, two save protocols; TLC BFS) + Trace_Library (per-call filesystem snapshots) + harness/fsproxy.py (recording, fault-injecting PyFilesystem)"),
    ("timing", "spec/timing", ["C11", "C12", "C13"],
     "Timing.tla (declarative timeline as linear forms, operational tagged-event engine, beat_at relation, hittability) + MC_Timing (TLC BFS over timing data) + Trace_Timing"),
    ("grouping", "spec/grouping", ["C09", "C10"],
     "Grouping.tla (declarative pairing, operational join machine, modes, counts, ungroup machine) + MC_Grouping (TLC BFS of the machine), MC_Ungroup + Trace_Grouping"),
    ("notedata", "spec/notedata", ["C07", "C08"],
     "NoteData.tla (decode / encode / position order) + MC_NoteData, MC_Encode (TLC BFS) + Trace_NoteData (TLC trace validation)"),
    ("codec", "spec/codec", ["C01", "C02", "C03", "C04"],
     "MSD.tla (tokenizer model) + Codec.tla (parse rules, serialization relation, detection) + MC_Codec / MC_Load / MC_MSD (TLC BFS) + Trace_Codec (TLC trace validation)"),
    ("object", "spec/object", ["C18"], "Object.tla + MC_Object (TLC BFS) + Trace_Object (TLC trace validation)"),
]


def build():
    with open(os.path.join(VERIF, "properties.jsonl")) as f:
        pids = [json.loads(l)["id"] for l in f if l.strip()]
    checks = []
    for pid in pids:
        if pid not in CLAIMED:
            continue
        eng, ref, text, note = CLAIMED[pid]
        if pid in SYSTEM_PART:
            text += " " + SYSTEM_PART[pid]
        checks.append({
            "property_id": pid,
            "quick_cmd": "./check %s --tier quick" % pid,
            "thorough_cmd": "./check %s --tier thorough" % pid,
            "evidence_file": "/verif/evidence/%s.json" % pid,
            "replay_cmd_template": "./check %s --replay {path}" % pid,
            "engine": eng,
            "level_claimed": {"category": "model_checking", "text": text, "design_ref": "DESIGN.md section " + ref},
            "level_note": note,
            "technique": TECH,
        })
    na = [{"property_id": p, "reason": PENDING.get(p, "check not built yet in this round; see DESIGN.md section 9 build order")}
          for p in pids if p not in CLAIMED]
    m = {
        "version": 1,
        "setup_cmd": "make -C /verif setup",
        "hooks": {
            "guard": "SIMFILE_VERIF",
            "enable": "no hooks are needed: the library is sequential and its public API exposes the abstract state; "
                      "checks import /repo's working tree directly (pure Python, nothing to build)",
            "baseline_off_cmd": BASELINE,
            "source_commits": [],
            "add_only": True,
        },
        "engines": [{"name": n, "path": p, "serves_properties": s, "kind_free_text": k} for n, p, s, k in ENGINES],
        "checks": checks,
        "notes": "Every check: exit 0 held / 1 VIOLATION / 2 machinery failure. Known findings: known_findings.json.",
        "not_applicable": na,
    }
    with open(os.path.join(VERIF, "MANIFEST.json"), "w") as f:
        json.dump(m, f, indent=1)
    return m


if __name__ == "__main__":
    m = build()
    print("MANIFEST.json: %d checks, %d not_applicable" % (len(m["checks"]), len(m["not_applicable"])))
