"""C06 — a failed or cancelled mutate never damages the input file (see c05.py)."""
from . import c05


def run(ctx):
    c05.run_c06(ctx)


replay = c05.replay
