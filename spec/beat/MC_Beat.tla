------------------------------ MODULE MC_Beat -------------------------------
(* Bounded models for C14.  Mode "str": every tick in a chunk of the +-2000-beat  *)
(* range: the three-decimal form reads back as the same tick and is strictly       *)
(* increasing (hence injective).  Mode "arith": every pair of small rationals        *)
(* under every operator: exact, closed, in lowest terms, algebraic identities.       *)
EXTENDS Beat, Json, TLC
CONSTANTS Mode, ChunkStarts, ChunkLen, NumMax, Dens, DoEmit
Nums == (-NumMax)..NumMax      \* cfg files reject negative literals
VARIABLES a, b, op, k0
vars == <<a, b, op, k0>>
Ops == {"add", "sub", "mul", "div", "mod", "floordiv", "neg", "pos", "abs", "radd", "rsub", "rmul", "rdiv", "rmod"}
Rats == {Norm(<<n, d>>) : n \in Nums, d \in Dens}
Init == IF Mode = "str" THEN a = <<0, 1>> /\ b = <<0, 1>> /\ op = "pos" /\ k0 \in ChunkStarts
        ELSE a \in Rats /\ b \in Rats /\ op \in Ops /\ k0 = 0
Next == FALSE /\ UNCHANGED vars
Spec == Init /\ [][Next]_vars

Chunk == k0..(k0 + ChunkLen - 1)
InvStrRoundTrip == Mode = "str" => \A k \in Chunk : k >= 0 => FromThousandths(Str3(k)) = k
InvStrIncreasing == Mode = "str" => \A k \in Chunk : k >= 0 => Str3(k) < Str3(k + 1)
InvStrClose == Mode = "str" => \A k \in Chunk : k >= 0 => Abs(48 * Str3(k) - 1000 * k) <= 24      \* within half a thousandth
InvPeriod == Mode = "str" => \A k \in Chunk : k >= 0 => Str3(k + 48) = Str3(k) + 1000

Defined == ~(NeedsNonZero(op) /\ b[1] = 0) /\ ~(NeedsNonZeroLeft(op) /\ a[1] = 0)
R == ApplyOp(op, a, b)
InvClosed == (Mode = "arith" /\ Defined) => InLowestTerms(R)
InvIdentities == (Mode = "arith" /\ Defined) =>
  /\ op = "add" => RSub(R, b) = a
  /\ op = "sub" => RAdd(R, b) = a
  /\ op = "mul" => (b[1] = 0 \/ RDiv(R, b) = a)
  /\ op = "div" => RMul(R, b) = a
  /\ op = "mod" => /\ RAdd(RMul(<<RFloorDiv(a, b), 1>>, b), R) = a
                   /\ (b[1] > 0 => RLeq(<<0, 1>>, R) /\ RLess(R, b))
                   /\ (b[1] < 0 => RLeq(R, <<0, 1>>) /\ RLess(b, R))
  /\ op = "neg" => RAdd(R, a) = <<0, 1>>
  /\ op = "abs" => R[1] >= 0
  /\ op \in {"radd", "rmul"} => R = ApplyOp(IF op = "radd" THEN "add" ELSE "mul", a, b)

Emit == DoEmit => PrintT(ToJson(IF Mode = "str" THEN [mode |-> "str", k0 |-> k0, strs |-> [i \in 1..ChunkLen |-> Str3(Abs(k0 + i - 1))]]
                                 ELSE [mode |-> "arith", a |-> a, b |-> b, op |-> op, defined |-> Defined, r |-> IF Defined THEN R ELSE <<0, 1>>]))
=============================================================================
