-------------------------------- MODULE Text --------------------------------
(* Text as sequences of Unicode code points (Seq(Int)); [-1] (the one-element *)
(* sequence <<-1>>) stands for Python's None where a value is optional.        *)
EXTENDS Sequences, Naturals, Integers, FiniteSets

None == <<-1>>
IsNone(v) == v = None

LF == 10
CR == 13
SP == 32
HASH == 35        \* #
SLASH == 47       \* /
COLON == 58       \* :
SEMI == 59        \* ;
BSL == 92         \* \
COMMA == 44
AMP == 38
EQ == 61
LBR == 91
RBR == 93
BOM == 65279

(* exactly CPython's str.isspace() *)
SpaceSet == {9, 10, 11, 12, 13, 28, 29, 30, 31, 32, 133, 160, 5760,
             8192, 8193, 8194, 8195, 8196, 8197, 8198, 8199, 8200, 8201, 8202,
             8232, 8233, 8239, 8287, 12288}
IsSpace(c) == c \in SpaceSet

(* str.splitlines() boundaries *)
LineBreakSet == {10, 11, 12, 13, 28, 29, 30, 133, 8232, 8233}

AllSpace(s) == \A i \in DOMAIN s : IsSpace(s[i])

(* str.upper()/lower() on ASCII and on the Latin-1 letters whose case pair is a single *)
(* Latin-1 code point (excludes U+00DF, U+00FF, U+00B5: generators avoid them)          *)
UpperC(c) == IF (c >= 97 /\ c <= 122) \/ (c >= 224 /\ c <= 254 /\ c # 247) THEN c - 32 ELSE c
LowerC(c) == IF (c >= 65 /\ c <= 90) \/ (c >= 192 /\ c <= 222 /\ c # 215) THEN c + 32 ELSE c
Upper(s) == [i \in DOMAIN s |-> UpperC(s[i])]
Lower(s) == [i \in DOMAIN s |-> LowerC(s[i])]

Sub(s, a, b) == IF a > b THEN <<>> ELSE SubSeq(s, a, b)

(* first / last index holding a non-space character (0 if none) *)
FirstNonSpace(s) == IF AllSpace(s) THEN 0 ELSE CHOOSE i \in DOMAIN s : ~IsSpace(s[i]) /\ \A j \in 1..(i-1) : IsSpace(s[j])
LastNonSpace(s)  == IF AllSpace(s) THEN 0 ELSE CHOOSE i \in DOMAIN s : ~IsSpace(s[i]) /\ \A j \in (i+1)..Len(s) : IsSpace(s[j])
Strip(s)  == IF AllSpace(s) THEN <<>> ELSE Sub(s, FirstNonSpace(s), LastNonSpace(s))
LStrip(s) == IF AllSpace(s) THEN <<>> ELSE Sub(s, FirstNonSpace(s), Len(s))
RStrip(s) == IF AllSpace(s) THEN <<>> ELSE Sub(s, 1, LastNonSpace(s))

StartsWith(s, p) == Len(p) <= Len(s) /\ Sub(s, 1, Len(p)) = p
EndsWith(s, p)   == Len(p) <= Len(s) /\ Sub(s, Len(s) - Len(p) + 1, Len(s)) = p
Contains(s, p)   == \E i \in 1..(Len(s) - Len(p) + 1) : Sub(s, i, i + Len(p) - 1) = p
HasChar(s, c)    == \E i \in DOMAIN s : s[i] = c

(* positions of character c in s, ascending, as a sequence.  Written with SelectSeq (an    *)
(* iterative built-in) rather than recursion: TLC's cost per recursive call grows with the  *)
(* recursion depth, which made splitting a 20 000-character text take a minute.             *)
Positions(s, c) == SelectSeq([i \in 1..Len(s) |-> i], LAMBDA i : s[i] = c)

(* str.split(c): always at least one piece *)
SplitOn(s, c) ==
  LET ps == Positions(s, c)
      n  == Len(ps)
      st(k) == IF k = 1 THEN 1 ELSE ps[k-1] + 1
      en(k) == IF k = n + 1 THEN Len(s) ELSE ps[k] - 1
  IN [k \in 1..(n+1) |-> Sub(s, st(k), en(k))]

RECURSIVE JoinFrom(_, _, _)
JoinFrom(parts, sep, k) == IF k > Len(parts) THEN <<>>
                           ELSE IF k = Len(parts) THEN parts[k]
                           ELSE parts[k] \o sep \o JoinFrom(parts, sep, k + 1)
JoinWith(parts, sep) == JoinFrom(parts, sep, 1)

RECURSIVE ConcatFrom(_, _)
ConcatFrom(parts, k) == IF k > Len(parts) THEN <<>> ELSE parts[k] \o ConcatFrom(parts, k + 1)
Concat(parts) == ConcatFrom(parts, 1)

(* str.splitlines(): CRLF counts as one break; no trailing empty line *)
SplitLines(s) ==
  LET n == Len(s)
      \* indices at which a line break begins (the LF of a CRLF pair does not begin one)
      B == SelectSeq([i \in 1..n |-> i],
                     LAMBDA i : s[i] \in LineBreakSet /\ ~(s[i] = LF /\ i > 1 /\ s[i-1] = CR))
      brk(i) == IF s[i] = CR /\ i < n /\ s[i+1] = LF THEN 2 ELSE 1
      start(k) == IF k = 1 THEN 1 ELSE B[k-1] + brk(B[k-1])
      m == Len(B)
      lastStart == start(m + 1)
  IN [k \in 1..m |-> Sub(s, start(k), B[k] - 1)]
     \o (IF lastStart <= n THEN <<Sub(s, lastStart, n)>> ELSE <<>>)

Max2(a, b) == IF a >= b THEN a ELSE b
Min2(a, b) == IF a <= b THEN a ELSE b
=============================================================================
