"""C13 — hittability and note timing follow the warp rules exactly.

(M)   MC_Timing: on every timing data of the bounded model the engine's formulation (prior state's warp
      flag, exception for a STOP_END / DELAY_END on the same beat) equals the declarative one (inside the
      union of the warps and no stop or delay on that beat) at every probe.
(S2C) every model timing data as a real engine: hittable() at every probe; time_notes over generated note
      data (routine and keysounded) under the three options; decided by TLC (times exact on the smooth domain).
(C2S) random timing data with arbitrary decimals, corpus timing data with synthetic warps, generated and
      corpus note data: TLC decides which notes come out, in which order, with which type, and that every
      other field is untouched; times are compared through the exact linear forms.
"""
import random

from . import timing_common as tc
from . import c11
from . import notedata_common as nc

INVS = ["InvHittable", "InvRefine"]
KINDS = ("hit", "notes")
PID = "C13"


def notes_for(rng, td):
    """note data whose rows land on the events of the timing data (so warps / pauses are hit)"""
    mx = max(td.event_positions()) // tc.Q + 2
    measures = min(6, mx // 4 + 1)
    players = rng.choice([1, 1, 2])
    cols = rng.choice([2, 4])
    rows = rng.choice([4, 8, 16, 48, 5, 10, 7, 20, 3])          # incl. rows that do not divide 192 (off the tick grid)
    ks = rng.random() < 0.4
    parts = []
    for p in range(players):
        ms = []
        for m in range(measures):
            lines = []
            for r in range(rows):
                s = ""
                for c in range(cols):
                    if rng.random() < (0.5 if rows <= 8 else 0.12):
                        s += rng.choice("1111234MLF")
                        if ks and rng.random() < 0.5:
                            s += "[%d]" % rng.choice([0, 3, 17])
                    else:
                        s += "0"
                lines.append(s)
            ms.append("\n".join(lines))
        parts.append("\n,\n".join(ms))
    return "\n&\n".join(parts)


def td_for_notes(rng, td, text):
    """put a stop / delay on the tick that an off-tick note's beat falls into (and on the note's own beat when
    it is tick-aligned): pauses and notes must meet for the timing rules to matter"""
    from simfile.notes import NoteData
    from fractions import Fraction
    try:
        beats = sorted({Fraction(n.beat) for n in NoteData(text)})
    except Exception:  # noqa
        return td
    if not beats or rng.random() < 0.4:
        return td
    stops, delays = dict(td.stops), dict(td.delays)
    for b in rng.sample(beats, min(3, len(beats))):
        q = int(b * 48) * tc.TICK                      # floor to the tick
        val = rng.choice(["0.5", "0.25"])
        if rng.random() < 0.6:
            stops.setdefault(q, val)
        else:
            delays.setdefault(q, val)
    return tc.TD(td.bpms, sorted(stops.items()), sorted(delays.items()), td.warps, td.offset)


def run(ctx):
    c11.run_model(ctx, PID, INVS, KINDS, ctx.quick, notes_for=notes_for)
    if ctx.quick:
        c11.run_c2s(ctx, PID, KINDS, 200, 80, notes_for=notes_for)
    else:
        c11.run_c2s(ctx, PID, KINDS, 5000, 1500, notes_for=notes_for)
    # whole sessions (System.tla): timing properties edited on the simfile / a chart, the SSC version, then the chart's notes timed
    from . import system_common as sysc
    sessions, sverdict = sysc.run_sessions(ctx, 150 if ctx.quick else 3000, ctx.seed + 13, timing_bias=True)
    sysc.judge(ctx, PID, sessions, sverdict, {"timenotes"}, "timing a chart's notes inside a session")
    sysc.mc_system(ctx, PID, (sysc.MC_RUNS[PID][0] if ctx.quick else sysc.MC_RUNS[PID][1]), ops={"timenotes"})      # MC_System, focus "timing"
    ctx.exhaustive = True
    ctx.rule = ("one evaluation per hittable() query / time_notes call; S2C: every timing data of the bounded model; C2S: random + corpus "
                "timing data x generated note data (routine, keysounded) x 3 options; non-trivial = timing data with a stop, delay or warp")
    ctx.assumptions += [
        "note beats lie on the 1/26880-beat grid (rows per measure dividing 4*26880: 1..8, 10, 12, 14, 16, 20, ... 48, 64, 192, ...)",
        "times of timed notes: exact on the smooth sub-domain, otherwise through TLC's linear forms evaluated with rationals (1e-9 s)",
    ]


def replay(rec):
    case = rec["case"]
    print(rec.get("what"))
    if case.get("mode") == "td":
        td = tc.TD.from_json(case["td"])
        eng, _ = td.engine()
        print(td.show())
        q = case.get("query") or {}
        if q.get("k") == "hit":
            print("hittable ->", eng.hittable(tc.beat_of(q["b"])))
    return 1
