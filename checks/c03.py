"""C03 — loading builds exactly the documented object, through every entry point.
C04 — load, save, load loses nothing; a second save changes nothing (run_c04).

(M)   MC_MSD: every text over a 10-symbol alphabet up to a length bound: the MSD tokenizer model,
      with the strict/lenient relation, the stray-text-removal lemma and serialize/lex round trip
      as invariants.  MC_Load: every symbol string (symbols expand to NOTES / VERSION / NOTEDATA /
      ATTACKS ... keys) with the entry-point agreement, strictness, file-name and load/save/load
      cycle invariants.
(S2C) every MC_MSD text is tokenized by msdparser itself (binding of the trusted-base model:
      a disagreement is a machinery failure, exit 2); every MC_Load text is loaded through every
      real entry point, strict and lenient, and compared with the specification's outcome.
(C2S) grammar-generated rich texts, the corpus files and mutations of them are loaded through
      every entry point; TLC (Trace_Codec) tokenizes each text with the MSD model, applies the
      parse rules and the format rule and compares.
"""
import io
import json
import os
import random
import shutil
import tempfile

from harness import tlc, core
from harness.core import cps, uncps
from . import codec_common as cc

A10 = [35, 58, 59, 92, 47, 10, 97, 32, 13, 65279]
SYMS = [1, 2, 3, 4, 5, 6, 7, 8, 9, 65279, 35, 58, 59, 92, 47, 10, 97, 32]
NAMES = ["a.sm", "a.ssc", "A.SM", "a.txt", "a.sm.bak", "b.SsC", "a.ssc.old", ".ssc", ".Sm", "v1.2.ssc"]


# ---- real entry points --------------------------------------------------------------------------

def outcome(fn):
    try:
        sf = fn()
    except Exception as e:  # noqa
        return {"st": type(e).__name__, "fmt": "", "items": [], "charts": []}
    try:
        p = cc.proj(sf)
    except Exception as e:  # noqa   (a loaded object whose items / charts cannot even be read)
        return {"st": "unreadable-object:" + type(e).__name__, "fmt": "", "items": [], "charts": []}
    return {"st": "ok", "fmt": cc.fmt_of(sf), "items": p["items"], "charts": p["charts"]}


def translate_newlines(text):
    return text.replace("\r\n", "\n").replace("\r", "\n")


class Scratch:
    def __init__(self):
        self.dir = tempfile.mkdtemp(prefix="vc03_")

    def write(self, name, text):
        path = os.path.join(self.dir, name)
        with open(path, "w", encoding="utf-8", newline="") as f:
            f.write(text)
        return path

    def write_bytes(self, name, data):
        path = os.path.join(self.dir, name)
        with open(path, "wb") as f:
            f.write(data)
        return path

    def close(self):
        shutil.rmtree(self.dir, ignore_errors=True)


def entry_calls(text, strict, scratch, rng=None, which="all"):
    """-> list of (label, entry, name, text_seen, result)"""
    import simfile
    from simfile.sm import SMSimfile
    from simfile.ssc import SSCSimfile
    out = []

    def add(label, entry, name, fn, seen=None):
        out.append({"label": label, "entry": entry, "name": cps(name), "seen": seen,
                    "res": outcome(fn)})
    lines = text.splitlines(keepends=True)
    add("loads", "anon", "", lambda: simfile.loads(text, strict=strict))
    add("load(StringIO)", "anon", "", lambda: simfile.load(io.StringIO(text), strict=strict))
    add("load(iter lines)", "anon", "", lambda: simfile.load(iter(lines), strict=strict))
    if rng is not None:
        k = rng.randint(1, 7)
        chunks = [text[i:i + k] for i in range(0, len(text), k)]
        add("load(iter chunks)", "anon", "", lambda: simfile.load(iter(chunks), strict=strict))
    add("SMSimfile(string=)", "sm_ctor", "", lambda: SMSimfile(string=text, strict=strict))
    add("SMSimfile(file=StringIO)", "sm_ctor", "", lambda: SMSimfile(file=io.StringIO(text), strict=strict))
    add("SSCSimfile(string=)", "ssc_ctor", "", lambda: SSCSimfile(string=text, strict=strict))
    add("SSCSimfile(file=iter)", "ssc_ctor", "", lambda: SSCSimfile(file=iter(lines), strict=strict))
    if which == "all":
        try:
            text.encode("utf-8")
            encodable = True
        except UnicodeEncodeError:
            encodable = False
        if encodable:
            tr = translate_newlines(text)
            for nm in NAMES:
                path = scratch.write(nm, text)

                def via_file(path=path):
                    with open(path, "r", encoding="utf-8", newline="") as f:
                        return simfile.load(f, strict=strict)
                add("load(open %s)" % nm, "named", path, via_file)
                # by file name: Python's text layer translates line breaks before the library sees them
                add("open(%s)" % nm, "named", path,
                    lambda path=path: simfile.open(path, strict=strict, encoding="utf-8"), seen=tr)
            # by file name with the encoding DETECTED, right after a file in another encoding was opened in this process
            nm = NAMES[len(text) % len(NAMES)]
            path = scratch.write(nm, text)
            other = scratch.write_bytes("legacy.sm", b"#TITLE:caf\xe9;\n#ARTIST:\x93quoted\x94;\n")

            def via_detect(path=path, other=other):
                simfile.open(other)
                return simfile.open(path, strict=strict)
            add("open-detected(%s)" % nm, "named", path, via_detect, seen=tr)
    return out


# ---- S2C ------------------------------------------------------------------------------------------

def msd_real(text, strict):
    from msdparser import parse_msd, MSDParserError
    try:
        return {"st": "ok", "params": [[cps(c) for c in p.components]
                                       for p in parse_msd(string=text, ignore_stray_text=not strict)]}
    except MSDParserError:
        return {"st": "MSDParserError", "params": []}
    except AssertionError:
        return {"st": "crash", "params": []}


def bind_msd(ctx, maxlen):
    """exhaustive comparison of the tokenizer model with msdparser (trusted-base binding)"""
    cfgs = []
    for first in A10:
        cfgs.append("SPECIFICATION Spec\nCONSTANTS\n Alphabet = {%s}\n MaxLen = %d\n First = %d\n"
                    "INVARIANT Emit\nINVARIANT InvLenient\nINVARIANT InvSerLex\nINVARIANT InvStrayRemoved\n" % (
                        ",".join(map(str, A10)), maxlen, first))
    jobs = [dict(module="MC_MSD", cfg=c, dirs=cc.DIRS, workers=2, timeout=3000) for c in cfgs]
    results = tlc.run_many(jobs, parallel=8)
    n = 0
    for res in results:
        if res.invariant_violated:
            raise core.MachineryError("MSD model lemma %s fails:\n%s" % (res.invariant_violated, (res.error_text or "")[:1500]))
        tlc.require_ok(res, "MC_MSD")
        ctx.add_tlc("MC_MSD", res)
        for rec in res.printed:
            text = uncps(rec["t"])
            for k, strict in (("s", True), ("l", False)):
                if msd_real(text, strict) != rec[k]:
                    raise core.MachineryError(
                        "MSD.tla disagrees with msdparser on %r strict=%s: model %s, msdparser %s" % (
                            text, strict, rec[k], msd_real(text, strict)))
            n += 1
    ctx.notes["msd_model_bound_to_msdparser_on_texts"] = n
    return n


def res_of_spec(r):
    return {"st": r["st"], "fmt": r["fmt"] if r["st"] == "ok" else "",
            "items": r["obj"]["items"] if r["st"] == "ok" else [],
            "charts": r["obj"]["charts"] if r["st"] == "ok" else []}


def s2c_load_job(rec):
    """one MC_Load emission through every real entry point; returns (ncalls, violations)"""
    text = uncps(rec["text"])
    viols = []
    ncalls = 0
    if rec["res"]["anon"]["l"]["st"] == "crash":
        return (0, [])
    scratch = Scratch()
    try:
        byname = {uncps(n["name"]): n for n in rec["named"]}
        for strict, k in ((True, "s"), (False, "l")):
            for c in entry_calls(text, strict, scratch):
                if c["seen"] is not None and c["seen"] != text:
                    continue      # the model alphabet's CR is translated by the text layer: C2S covers it
                if c["entry"] == "named":
                    exp = res_of_spec(byname[os.path.basename(uncps(c["name"]))][k])
                else:
                    exp = res_of_spec(rec["res"][c["entry"]][k])
                got = c["res"]
                if got["st"] != "ok":
                    got = {"st": got["st"], "fmt": "", "items": [], "charts": []}
                ncalls += 1
                alt = (byname[os.path.basename(uncps(c["name"]))][k] if c["entry"] == "named"
                       else rec["res"][c["entry"]][k]).get("alt")
                if got != exp and not (exp["st"] != "ok" and got["st"] == alt):
                    clause = "outcome" if got["st"] != exp["st"] else (
                        "format" if got["fmt"] != exp["fmt"] else "content")
                    viols.append(("C03:%s:%s:%s" % (entry_class(c["label"]), clause,
                                                    got["st"] if clause == "outcome" else ""),
                                  "%s strict=%s on %r: expected %s, got %s" % (c["label"], strict, text, brief(exp), brief(got)),
                                  {"mode": "text", "text": text, "strict": strict, "label": c["label"]}))
    finally:
        scratch.close()
    return (ncalls, viols)


def entry_class(label):
    if label.startswith("load(open"):
        return "load-open-file:" + label[len("load(open "):-1].rsplit(".", 1)[-1].lower()
    if label.startswith("open("):
        return "open-filename"
    return label.split("(")[0]


def brief(r):
    if r["st"] != "ok":
        return r["st"]
    return "%s items=%s charts=%s" % (r["fmt"], [(uncps(e["k"]), uncps(e["v"])) for e in r["items"]],
                                      len(r["charts"]))


def s2c_load(ctx, maxlen):
    cfgs = []
    for first in SYMS:
        cfgs.append("SPECIFICATION Spec\nCONSTANTS\n Symbols = {%s}\n MaxLen = %d\n First = %d\n DoEmit = TRUE\n"
                    "INVARIANT InvStrictness\nINVARIANT InvEntryAgree\nINVARIANT InvCycle\nINVARIANT InvNamed\nINVARIANT Emit\n" % (
                        ",".join(map(str, SYMS)), maxlen, first))
    jobs = [dict(module="MC_Load", cfg=c, dirs=cc.DIRS, workers=2, timeout=3000) for c in cfgs]
    results = tlc.run_many(jobs, parallel=8)
    recs = []
    for res in results:
        if res.invariant_violated:
            ctx.violation("C03:model:%s" % res.invariant_violated,
                          "the documented rules themselves violate %s:\n%s" % (res.invariant_violated, (res.error_text or "")[:1500]),
                          {"mode": "model"})
            continue
        tlc.require_ok(res, "MC_Load")
        ctx.add_tlc("MC_Load", res)
        recs += res.printed
    n = 0
    for rec, (ncalls, viols) in zip(recs, core.pmap(s2c_load_job, recs, chunk=50)):
        n += ncalls
        for key, what, case in viols:
            ctx.violation(key, what, case)
        if ncalls:
            ctx.nontrivial_add(("load", tuple(rec["text"])))
    if recs:
        mid = recs[len(recs) // 3]
        ctx.sample({"s2c_text": uncps(mid["text"]), "spec_outcome_strict_anon": brief(res_of_spec(mid["res"]["anon"]["s"]))})
    ctx.traces += n
    ctx.evaluations += n
    ctx.notes["s2c_entry_point_calls"] = n
    return n


# ---- C2S: generated texts -----------------------------------------------------------------------------

KEYS = ["TITLE", "title", "Artist", "ATTACKS", "attacks", "DISPLAYBPM", "NOTES", "notes", "Notes",
        "VERSION", "version", "Version", "NOTEDATA", "notedata", "STEPSTYPE", "BPMS", "X1", "猫", "NOTES2", "FREEZES",
        "MUSIC", "Banner", "BACKGROUND", "JACKET", "CDTITLE", "LYRICSPATH", "ANIMATIONS", "STOPS", "BGCHANGES", "OFFSET",
        # keys with characters that mean something to format strings, patterns and shells - and nothing to MSD
        "A{B}", "X{}", "K{0}", "A{{B}}", "P%s", "100%", "K[1]", "A*", "Q?", "K.1", "a-b", "(X)", "$V", "^K", "A|B", "K+", "IT'S", 'Q"T', "T\tK", "É", "<K>", "K=V", "K,L", "K&L", "~K", "@K", "`K`", "!K"]


def gen_param(rng):
    key = rng.choice(KEYS) if rng.random() < 0.75 else rng.choice(KEYS[:30])       # (the plain vocabulary keeps its weight)
    r = rng.random()
    if r < 0.08:
        comps = []
    elif key.upper() == "NOTES" and r < 0.7:
        comps = [rng.choice(["", " a ", "dance-single", "\n  x\n", "1", "a\\:b"]) for _ in range(rng.choice([1, 5, 6, 6, 6, 7, 8]))]
        if len(comps) > 6 and rng.random() < 0.4:
            comps[6:] = [""] * (len(comps) - 6)          # components beyond the sixth that are all EMPTY are still components
    else:
        comps = [cc.rand_text(rng, 8, 0.0).replace("\\", "") for _ in range(rng.choice([1, 1, 1, 2, 3]))]
    body = key
    for c in comps:
        if rng.random() < 0.3:
            c = c.replace("a", "\\:", 1) if rng.random() < 0.5 else c + "\\;"
        if rng.random() < 0.15:      # escaped metacharacters: the loaded value holds them literally
            esc = rng.choice(["\\/\\/", "\\/", "\\#", "\\\\", "x\\/\\/y", "\\/\\/ z", "\\\n"])
            i = rng.randint(0, len(c))
            c = c[:i] + esc + c[i:]
        if rng.random() < 0.1:
            c += "// comment"
            if rng.random() < 0.7:
                c += rng.choice(["\n", "\r\n"])
        body += ":" + c
    end = ";" if rng.random() < 0.85 else rng.choice(["\n", "\r\n", ""])   # missing semicolon
    return "#" + body + end


def gen_text(rng):
    parts = []
    if rng.random() < 0.15:
        parts.append("\ufeff" + rng.choice(["", "", "\n", " ", "\r\n", "// c\n"]))
    if rng.random() < 0.25:
        parts.append(rng.choice(["stray", " \t", "// note\n", ";", ":", "x\n", "\\a", "/", "// a; b: c\n", "x;y\n", " ;\n"]))
    for _ in range(rng.choice([0, 1, 2, 3, 4, 6, 9])):
        parts.append(gen_param(rng))
        r = rng.random()
        if r < 0.5:
            parts.append(rng.choice(["\n", "\r\n", "\n\n", " "]))
        elif r < 0.62:
            parts.append(rng.choice(["stray text\n", "x", "\n// c\n", "\ufeff", " ; ", "\u3000\n", "\\#"]))
    if rng.random() < 0.3:      # chart blocks: parameters after a NOTEDATA, note data under either or both keys
        for _ in range(rng.choice([1, 1, 2, 3])):
            parts.append(rng.choice(["#NOTEDATA:;", "#notedata:;\n", "#NoteData:x;"]))
            for _ in range(rng.choice([0, 1, 2, 4])):
                parts.append(gen_param(rng) + rng.choice(["", "\n"]))
            parts.append(rng.choice(["#NOTES:0000\n,\n0000;", "#NOTES2:1;\n", "#notes:x;#NOTES2:y;", "#NOTES2:a;#NOTES:b;\n", "",
                                     "#NOTES:;#AFTER:b;"]))
    if rng.random() < 0.1:
        parts.append(rng.choice(["trailing", "#LAST:v", "#K", "//end"]))
    t = "".join(parts)
    if rng.random() < 0.08:
        t = cc.rand_text(rng, 20, 0.6)
    return t


def mutate(rng, text):
    if not text:
        return text
    for _ in range(rng.randint(1, 4)):
        i = rng.randrange(len(text))
        j = min(len(text), i + rng.randint(1, 40))
        r = rng.random()
        if r < 0.25:
            text = text[:i] + text[j:]
        elif r < 0.45:
            text = text[:j] + text[i:j] + text[j:]
        elif r < 0.6:
            text = text[:i] + text[i:j].swapcase() + text[j:]
        elif r < 0.8:
            text = text[:i] + rng.choice(["stray\n", "#", ";", ":", "\n", "// c\n", "#NOTES:a:b;", "#version:1;"]) + text[i:]
        else:
            k = rng.randrange(len(text))
            text = text[:i] + text[k:k + (j - i)] + text[j:]
    return text


def lone_backslash(text):
    n = 0
    for ch in reversed(text):
        if ch == "\\":
            n += 1
        else:
            break
    return n % 2 == 1


def make_load_records(rng, texts, start_id, full_entries=True):
    from msdparser import parse_msd, MSDParserError
    scratch = Scratch()
    recs, meta = [], {}
    rid = start_id
    try:
        for text in texts:
            for strict in (True, False):
                calls = entry_calls(text, strict, scratch, rng=rng, which="all" if full_entries else "nofile")
                groups = {}
                for c in calls:
                    groups.setdefault(c["seen"] if c["seen"] is not None else text, []).append(c)
                for seen, cs in groups.items():
                    rec = {"t": "load", "id": rid, "strict": strict, "level": "text", "text": [], "lexst": "ok",
                           "params": [], "calls": [{"entry": c["entry"], "name": c["name"], "res": c["res"]} for c in cs]}
                    if len(seen) <= 2500:
                        rec["text"] = cps(seen)
                    else:
                        rec["level"] = "params"
                        try:
                            ps = [[cc.elide(x) for x in p.components]
                                  for p in parse_msd(string=seen, ignore_stray_text=not strict)]
                            rec["params"] = ps
                        except MSDParserError:
                            rec["lexst"] = "MSDParserError"
                        except AssertionError:
                            rec["lexst"] = "crash"
                        for c in rec["calls"]:
                            c["res"] = elide_res(c["res"])
                    recs.append(rec)
                    meta[rid] = {"mode": "text", "text": seen, "strict": strict, "labels": [c["label"] for c in cs]}
                    rid += 1
    finally:
        scratch.close()
    return recs, meta


def elide_res(res):
    def ev(cpv):
        return cc.elide(uncps(cpv))
    if res["st"] != "ok":
        return res
    out = dict(res)
    out["items"] = [{"k": ev(e["k"]), "v": ev(e["v"])} for e in res["items"]]
    if res["fmt"] == "sm":
        out["charts"] = [{"fields": [ev(f) for f in c["fields"]], "extra": [ev(x) for x in c["extra"]]} for c in res["charts"]]
    else:
        out["charts"] = [[{"k": ev(e["k"]), "v": ev(e["v"])} for e in c] for c in res["charts"]]
    return out


def chart_records(rng, n, start_id):
    """chart-level entry points"""
    from simfile.sm import SMChart
    from simfile.ssc import SSCChart
    recs, meta = [], {}
    rid = start_id
    for _ in range(n):
        if rng.random() < 0.5:
            ncomp = rng.choice([0, 1, 3, 5, 6, 6, 6, 7, 9])
            comps = [rng.choice(["", " a ", "x", "\n 0000\n0000 \n", "\u3000b\u00a0", "1.0,2.0"]) + cc.rand_text(rng, 3, 0.2).replace(":", "")
                     for _ in range(ncomp)]
            use_str = rng.random() < 0.5
            if use_str:
                s = ":".join(comps)
                comps = s.split(":")

                def fn(s=s):
                    return SMChart.from_str(s)
            else:
                def fn(comps=comps):
                    return SMChart.from_msd(comps)
            try:
                c = fn()
                res = {"st": "ok", "fields": [cc._v(c.get(f)) for f in cc.SMF], "extra": [cc._v(x) for x in (c.extradata or [])]}
            except Exception as e:  # noqa
                res = {"st": type(e).__name__, "fields": [], "extra": []}
            recs.append({"t": "chart", "id": rid, "entry": "smchart", "comps": [cps(x) for x in comps], "res": res,
                         "level": "text", "text": [], "strict": True, "lexst": "ok", "params": []})
            meta[rid] = {"mode": "smchart", "comps": comps, "from_str": use_str}
        else:
            strict = rng.random() < 0.6
            body = "".join(gen_param(rng) + rng.choice(["\n", "", " \n"]) for _ in range(rng.randint(0, 5)))
            head = rng.choice(["#NOTEDATA:;", "#notedata:;", "#NoteData:x;", "", "#TITLE:x;"])
            if not strict and rng.random() < 0.3:
                head = "junk " + head
            text = head + "\n" + body + rng.choice(["#NOTES:0000;", "#NOTES2:1;", "#notes:x;", "", "#NOTES:a;#AFTER:b;"])
            if lone_backslash(text):
                text += "x"
            try:
                c = SSCChart.from_str(text, strict=strict)
                res = {"st": "ok", "chart": cc.proj_items(c)}
            except StopIteration:
                res = {"st": "StopIteration", "chart": []}
            except Exception as e:  # noqa
                res = {"st": type(e).__name__, "chart": []}
            recs.append({"t": "chart", "id": rid, "entry": "sscchart", "comps": [], "res": res,
                         "level": "text", "text": cps(text), "strict": strict, "lexst": "ok", "params": []})
            meta[rid] = {"mode": "sscchart", "text": text, "strict": strict}
        rid += 1
    return recs, meta


def corpus_texts():
    out = []
    for p in cc.corpus_files():
        with open(p, encoding="utf-8", newline="") as f:
            out.append(f.read())
    return out


def c2s(ctx, ntexts, nmut, nchart):
    rng = random.Random(ctx.seed * 17 + 3)
    texts = []
    while len(texts) < ntexts:
        t = gen_text(rng)
        if not lone_backslash(t):
            texts.append(t)
    corp = corpus_texts()
    muts = []
    for _ in range(nmut):
        t = mutate(rng, rng.choice(corp))
        if not lone_backslash(t):
            muts.append(t)
    recs, meta = make_load_records(rng, texts, 0, full_entries=True)
    r2, m2 = make_load_records(rng, corp + muts, len(recs) + 1000000, full_entries=True)
    recs += r2
    meta.update(m2)
    r3, m3 = chart_records(rng, nchart, 5000000)
    recs += r3
    meta.update(m3)
    verdict = cc.validate(ctx, recs)
    at = cc.validate.at
    excluded = 0
    for rec in recs:
        cl = verdict[rec["id"]]
        m = meta[rec["id"]]
        ncalls = len(rec.get("calls", [0]))
        ctx.traces += ncalls
        ctx.evaluations += ncalls
        if cl.startswith("domain:"):
            excluded += 1
            continue
        if rec["t"] == "load":
            ctx.nontrivial_add(("t", m["text"], m["strict"]))
        else:
            ctx.nontrivial_add(json.dumps(m, sort_keys=True))
        if cl:
            if rec["t"] == "load":
                k = at[rec["id"]]
                call = rec["calls"][k - 1]
                label = m["labels"][k - 1]
                ctx.violation("C03:%s:%s:%s" % (entry_class(label), cl, call["res"]["st"] if cl in ("outcome", "lenient-rejected") else ""),
                              "%s strict=%s rejected (%s) on text %r: got %s" % (
                                  label, m["strict"], cl, m["text"][:300], brief(call["res"]) if rec["level"] == "text" else call["res"]["st"]),
                              {"mode": "text", "text": m["text"], "strict": m["strict"], "label": label})
            else:
                ctx.violation("C03:%s:%s:%s" % (m["mode"], cl, rec["res"]["st"]),
                              "chart entry point rejected (%s): %s -> %s" % (cl, str(m)[:300], rec["res"]["st"]), m)
    ctx.notes["c2s_excluded_by_spec_domain_predicate"] = excluded
    if recs:
        r = recs[7 % len(recs)]
        ctx.sample({"c2s_text": meta[r["id"]].get("text", "")[:200], "strict": r["strict"],
                    "entry_points": meta[r["id"]].get("labels")})


# ---- entry --------------------------------------------------------------------------------------------

def run(ctx):
    bind_msd(ctx, 4 if ctx.quick else 6)
    s2c_load(ctx, 3 if ctx.quick else 4)
    if ctx.quick:
        c2s(ctx, 250, 12, 300)
    else:
        c2s(ctx, 4000, 300, 5000)
    ctx.exhaustive = True
    ctx.rule = ("S2C: every text of the bounded MC_Load model through every entry point (13 entry points x "
                "strict/lenient), one evaluation per call; C2S: one evaluation per entry-point call on generated, "
                "corpus and mutated texts; distinct non-trivial = distinct (text, strictness) pairs")
    ctx.assumptions += [
        "msdparser.parse_msd is the trusted tokenizer; MSD.tla is first compared with it on every text over 10 symbols up to the length bound (mismatch = exit 2)",
        "key letter case varies inside ASCII only",
        "texts ending in an unpaired backslash are excluded (msdparser fails an internal assertion)",
        "open(filename) sees the text after Python's universal-newline translation; the trace logs that text",
        "file names are dotted (a name that is exactly 'sm' or 'ssc' is outside the entry-point set)",
    ]


def replay(rec):
    case = rec["case"]
    print(rec.get("what"))
    if case.get("mode") == "text":
        sc = Scratch()
        try:
            for c in entry_calls(case["text"], case["strict"], sc):
                print("%-28s -> %s" % (c["label"], brief(c["res"])))
        finally:
            sc.close()
    return 1
