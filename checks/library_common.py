"""Shared by C05 / C06: scenarios of simfile.mutate / open on real filesystems through the recording,
fault-injecting proxy; projection of a run to a Trace_Library record."""
import io
import json
import os
import random
import shutil
import tempfile

from harness import core, trace, fsproxy
from . import codec_common as cc

DIRS = ["library"]
ENCS = ["utf-8", "cp1252", "cp932", "cp949"]

TITLES = {
    "ascii": "Plain Title",
    "utf8": "Café 猫 ☃",
    "cp1252": "Café über “quoted”",
    "cp932": "ねこ、おと",
    "cp949": "고양이 노래",
    "multi": "éè",          # decodes under several code pages
}


def base_text(ext, title):
    if ext == "ssc":
        return ("#VERSION:0.83;\n#TITLE:%s;\n#ARTIST:a;\n#BPMS:0=120;\n#NOTEDATA:;\n#STEPSTYPE:dance-single;\n#METER:5;\n"
                "#NOTES:\n0000\n0000\n0000\n0000\n;\n#NOTEDATA:;\n#STEPSTYPE:dance-double;\n#METER:9;\n#NOTES:\n00000000\n;\n" % title)
    return ("#TITLE:%s;\n#ARTIST:a;\n#BPMS:0=120;\n#NOTES:\n     dance-single:\n     :\n     Easy:\n     5:\n     0,0,0,0,0:\n0000\n0000\n;\n"
            "#NOTES:\n     dance-double:\n     :\n     Hard:\n     9:\n     0,0,0,0,0:\n00000000\n;\n" % title)


def contents(rng, ext):
    """(label, bytes) candidates"""
    out = []
    for label, enc in (("ascii", "ascii"), ("utf8", "utf-8"), ("cp1252", "cp1252"), ("cp932", "cp932"), ("cp949", "cp949"),
                       ("multi", "cp1252")):
        out.append((label, base_text(ext, TITLES[label]).encode(enc)))
    out.append(("messy", ("// comment\n#title:lower;#TITLE:Second;\n#Artist;\n#BPMS:0=60;" +
                          ("#VERSION:0.7;" if False else "")).encode("ascii")))
    # long files whose multi-byte characters straddle every power-of-two offset (chunked readers)
    out.append(("big-utf8", ("#TITLE:" + "猫" * 6000 + ";\n" + base_text(ext, "t")).encode("utf-8")))
    out.append(("big-cp932", ("#TITLE:" + "ねこ、" * 3000 + ";\n" + base_text(ext, "t")).encode("cp932")))
    out.append(("big-cp949", ("#TITLE:" + "고양이" * 3000 + ";\n" + base_text(ext, "t")).encode("cp949")))
    # keys that need escaping; line-boundary characters other than CR / LF inside values and note data
    out.append(("meta-keys", ("#MOD\\:SPEED:1.5x;\n#A\\;B:v;\n#C\\/\\/D:w;\n" + base_text(ext, "t")).encode("ascii")))
    out.append(("ff-notes", base_text(ext, "t\x0bu").replace("0000\n0000", "0000\x0c0000\x1c").encode("ascii")))
    out.append(("ls-notes", base_text(ext, "t\u2028u\x85v").replace("0000\n0000", "0000\u20280000\u2029").encode("utf-8")))
    out.append(("invalid", b"#TITLE:\x81 ;\n\x90\n"))
    out.append(("invalid2", b"\x81 \x90 #TITLE:x;"))
    return out


EDIT_VALUES = ["New Title", "x:y;z\\w", "", "été", "猫", "고", "ね", "line1\nline2", "  padded  "]


def gen_edits(rng, n):
    ops = []
    for _ in range(n):
        r = rng.random()
        if r < 0.45:
            ops.append(["set", rng.choice(["TITLE", "ARTIST", "SUBTITLE", "XCUSTOM", "CREDIT", "LABEL;A", "MOD:X", "A//B", "B\\C"]), rng.choice(EDIT_VALUES)])
        elif r < 0.55:
            ops.append(["del", rng.choice(["TITLE", "ARTIST", "XCUSTOM"]), ""])
        elif r < 0.66:
            ops.append(["chartset", rng.choice(["meter", "description"]), rng.choice(["7", "edited", "é"])])
        elif r < 0.78:
            ops.append(["chartextra", str(rng.randint(0, 3)), rng.choice(["keysounds.ogg", "extra:data", "x", ""])])
        elif r < 0.8:
            ops.append(["chartdel", "", ""])
        elif r < 0.9:
            ops.append(["chartadd", "", ""])
        else:
            ops.append(["attr", "title", rng.choice(EDIT_VALUES)])
    return ops


def apply_edit(sf, op):
    kind, k, v = op
    if kind == "set":
        sf[k] = v
    elif kind == "del":
        sf.pop(k, None)
    elif kind == "attr":
        setattr(sf, k, v)
    elif kind == "chartset" and sf.charts:
        setattr(sf.charts[0], k, v)
    elif kind == "chartextra" and sf.charts and hasattr(sf.charts[0], "extradata"):
        c = sf.charts[int(k or 0) % len(sf.charts)]
        c.extradata = [v, "more"] if v else None          # SM charts: components after the note data
    elif kind == "chartdel" and len(sf.charts) > 1:
        del sf.charts[-1]
    elif kind == "chartadd":
        import simfile as _sf
        sf.charts.append(_sf.sm.SMChart.blank() if isinstance(sf, _sf.sm.SMSimfile) else _sf.ssc.SSCChart.blank())
    elif kind == "unserializable":
        sf["XBAD"] = 5                       # a non-string value: serialization raises
    elif kind == "unencodable":
        # a character the detected encoding lacks - in a value, in a KEY, in a chart field, in the note data, or in an SM
        # chart's components beyond the sixth: wherever it sits, the text cannot be encoded
        place = k or "value"
        if place == "key":
            sf["X" + v] = "wide key"
        elif place == "chartfield" and sf.charts:
            sf.charts[0].description = "d" + v
        elif place == "notes" and sf.charts:
            sf.charts[-1].notes = (sf.charts[-1].notes or "0000") + v
        elif place == "chartextra" and sf.charts and hasattr(sf.charts[0], "extradata"):
            sf.charts[0].extradata = ["x" + v, "more"]
        else:
            sf["XWIDE"] = v


UNENCODABLE = {"utf-8": "\udc80", "cp1252": "猫", "cp932": "고", "cp949": "ก", "ascii": "é"}


def nproj(sf):
    """projection up to the documented normalisation (an SSC chart's note data comes last)"""
    from .c01 import norm_ssc
    p = cc.proj(sf)
    return norm_ssc(p) if cc.fmt_of(sf) == "ssc" else p


class Intern:
    def __init__(self):
        self.ids = {}

    def __call__(self, key):
        if key not in self.ids:
            self.ids[key] = len(self.ids) + 1
        return self.ids[key]


def decode_text(b, enc):
    try:
        return io.TextIOWrapper(io.BytesIO(b), encoding=enc, newline=None).read()
    except (UnicodeDecodeError, LookupError):
        return None


class BodyError(Exception):
    pass


class BodyBaseError(BaseException):
    pass


RAISERS = {"raise:BodyError": BodyError, "raise:KeyboardInterrupt": KeyboardInterrupt, "raise:SystemExit": SystemExit,
           "raise:ValueError": ValueError, "raise:KeyError": KeyError, "raise:AttributeError": AttributeError, "raise:TypeError": TypeError,
           "raise:OSError": OSError, "raise:UnicodeError": UnicodeError, "raise:LookupError": LookupError, "raise:RuntimeError": RuntimeError,
           "raise:StopIteration": StopIteration, "raise:GeneratorExit": GeneratorExit, "raise:BodyBaseError": BodyBaseError,
           "raise:AssertionError": AssertionError, "raise:NotImplementedError": NotImplementedError}


def failed_serialization(ext, rid):
    """an EARLIER, unrelated serialization that fails half-way in the same thread (a chart that cannot be
    written after properties and a good chart have been): nothing of it may show up in later saves"""
    import simfile as _sf
    try:
        if ext == "ssc":
            p = _sf.ssc.SSCSimfile.blank()
            p.title = "left over"
            c = _sf.ssc.SSCChart.blank()
            c["CHARTNAME"] = "left over"
            p.charts.append(c)
            bad = _sf.ssc.SSCChart.blank()
            del bad["NOTES"]
            p.charts.append(bad)
        else:
            p = _sf.sm.SMSimfile.blank()
            p.title = "left over"
            c = _sf.sm.SMChart.blank()
            c.description = "left over"
            p.charts.append(c)
            p.charts.append("not a chart")
        (str(p) if rid % 4 == 0 else p.serialize(__import__("io").StringIO()))
    except Exception:  # noqa
        return True
    return False


def run_errors_scenario(job):
    """mutate(..., errors=<lenient handler>) on a file in a legacy code page, with an edit the code page lacks.
    Only C06's clause is judged: IF the save fails, the input still holds its original bytes."""
    import simfile
    rid, (fsk, ext, enc, handler, bak, wide) = job
    text = base_text(ext, TITLES.get(enc, "t"))
    content = text.encode(enc)
    tmp = mem = None
    out = {"id": rid, "kind": "errors", "fs": fsk, "ext": ext, "enc": enc, "handler": handler, "bak": bak, "exc": "", "inputsame": True,
           "baksame": True}
    try:
        if fsk == "native":
            tmp = tempfile.mkdtemp(prefix="vlib_")
            path = os.path.join(tmp, "song." + ext)
            bpath = os.path.join(tmp, "song.bak")
            with open(path, "wb") as f:
                f.write(content)
            kw = {}
            read = lambda p: open(p, "rb").read() if os.path.exists(p) else None      # noqa
        else:
            from fs.memoryfs import MemoryFS
            mem = MemoryFS()
            path, bpath = "/song." + ext, "/song.bak"
            mem.writebytes(path, content)
            kw = {"filesystem": mem}
            read = lambda p: mem.readbytes(p) if mem.exists(p) else None               # noqa
        if bak:
            kw["backup_filename"] = bpath
        try:
            with simfile.mutate(path, errors=handler, **kw) as sf:
                sf["XWIDE"] = wide
        except BaseException as e:  # noqa
            out["exc"] = type(e).__name__
            out["inputsame"] = (read(path) == content)
            b = read(bpath)
            out["baksame"] = (not bak) or b is None or b == content or b.decode(enc, "replace").replace("\r\n", "\n") == text
        return out
    finally:
        if tmp:
            shutil.rmtree(tmp, ignore_errors=True)
        if mem is not None:
            mem.close()


def errors_jobs():
    jobs = []
    for fsk in ("native", "memory"):
        for ext in ("sm", "ssc"):
            for enc, wide in (("cp1252", "猫"), ("cp932", "고"), ("cp949", "ก"), ("utf-8", "\udc80")):
                for handler in ("replace", "ignore", "backslashreplace", "xmlcharrefreplace"):
                    for bak in (False, True):
                        jobs.append((fsk, ext, enc, handler, bak, wide))
    return list(enumerate(jobs))


def run_scenario(sc, rid):
    """execute one mutate scenario for real; returns the Trace_Library record (+ harness-only '_' fields)"""
    import simfile
    from simfile import CancelMutation
    ext = sc["ext"]
    def fix(n):
        return n[:-3] + "." + ext if n.endswith(".sm") and not n.startswith("=") else n
    names = {"in": "song." + ext, "out": fix(sc["out"]), "bak": fix(sc["bak"])}
    other = "other." + ext
    mem = None
    tmp = None
    if sc["fs"] == "native":
        tmp = tempfile.mkdtemp(prefix="vlib_")
        root = tmp

        def path(n):
            return os.path.join(root, n)

        def snapshot():
            out = {}
            for n in sorted(os.listdir(root)):
                with open(os.path.join(root, n), "rb") as f:
                    out[n] = f.read()
            return out

        def put(n, b):
            with open(path(n), "wb") as f:
                f.write(b)
    else:
        from fs.memoryfs import MemoryFS
        mem = MemoryFS()

        def path(n):
            return "/" + n

        def snapshot():
            return {n: mem.readbytes("/" + n) for n in sorted(mem.listdir("/"))}

        def put(n, b):
            mem.writebytes("/" + n, b)
    try:
        if sc.get("poison", rid % 2 == 0):
            failed_serialization(ext, rid)
        put(names["in"], sc["content"])
        put(other, b"#TITLE:other;\n")
        if sc.get("out_exists") and names["out"]:
            put(names["out"], b"#TITLE:old output;\n")
        rec = fsproxy.Recorder(snapshot, fault_at=sc.get("fault", 0))
        fsx = fsproxy.native_proxy(rec) if sc["fs"] == "native" else fsproxy.memory_proxy(rec, mem)
        init = snapshot()
        kwargs = {}
        tried = sc["tried"]
        if sc.get("explicit"):
            tried = [sc["explicit"]]
        result = {"exc": "", "entry": None, "exit": None, "exit_at": 0}
        projs = Intern()

        def do_mutate(edits, outcome, raise_at, recorder_fs):
            kw = dict(filesystem=recorder_fs)
            if sc.get("explicit") is None:
                kw["try_encodings"] = list(tried)
            else:
                kw["try_encodings"] = [sc["explicit"]]
            if names["out"]:
                kw["output_filename"] = path(names["out"])
            if names["bak"]:
                kw["backup_filename"] = path(names["bak"]) if names["bak"] not in ("=in", "=out") else (
                    path(names["in"]) if names["bak"] == "=in" else path(names["out"]))
            with simfile.mutate(path(names["in"]), **kw) as sf:
                result["entry"] = projs(json.dumps(nproj(sf), sort_keys=True))
                try:
                    def boom():
                        if outcome == "cancel":
                            return CancelMutation()
                        if outcome == "cancel-subclass":
                            return type("MyCancel", (CancelMutation,), {})()
                        result["raised_obj"] = RAISERS[outcome]("from the body")
                        return result["raised_obj"]
                    for j, op in enumerate(edits):
                        if outcome != "normal" and raise_at == j:
                            raise boom()
                        apply_edit(sf, op)
                    if outcome != "normal" and raise_at >= len(edits):
                        raise boom()
                finally:
                    try:
                        result["exit"] = projs(json.dumps(nproj(sf), sort_keys=True, default=str))
                    except Exception:  # noqa
                        result["exit"] = -1
                    reads_now = [ev for ev in rec.events if ev["op"] == "open" and "r" in ev["mode"] and ev["ok"]]
                    try:
                        text_now = str(sf)
                        try:
                            text_now.encode(reads_now[-1]["enc"])
                        except UnicodeEncodeError:
                            result["auto"] = "unencodable"
                    except Exception:  # noqa
                        result["auto"] = "unserializable"
                    result["exit_at"] = len(rec.events) + 1
                    rec.mark("body-exit")
        try:
            do_mutate(sc["edits"], sc["outcome"], sc.get("raise_at", 0), fsx)
        except BaseException as e:  # noqa
            result["exc"] = type(e).__name__
            if result.get("raised_obj") is not None and e is not result["raised_obj"]:
                result["exc"] = "not-the-same-object:" + type(e).__name__
        for f in rec.leaked:
            try:
                f.close()
            except Exception:  # noqa
                pass
        # ---- projection ---------------------------------------------------------------------------
        cids = Intern()
        allnames = set(init)
        for nm_ in (names["in"], names["out"], names["bak"]):
            if nm_ and not nm_.startswith("="):
                allnames.add(nm_)
        for ev in rec.events:
            allnames |= set(ev.get("files", {}))

        def fsrec(files, open_w):
            return {n: {"c": cids(files[n]) if n in files else 0, "partial": n in open_w} for n in sorted(allnames)}
        snaps = [{"op": "init", "name": "", "mode": "", "enc": "", "ok": True, "fs": fsrec(init, [])}]
        for ev in rec.events:
            snaps.append({"op": ev["op"], "name": ev["name"], "mode": ev["mode"], "enc": ev["enc"], "ok": ev["ok"],
                          "fs": fsrec(ev["files"], ev["open_w"])})
        reads = [ev for ev in rec.events if ev["op"] == "open" and "r" in ev["mode"] and ev["ok"]]
        det = reads[-1]["enc"] if reads else ""
        spec_names = {"in": names["in"], "out": names["out"],
                      "bak": names["in"] if names["bak"] == "=in" else (names["out"] if names["bak"] == "=out" else names["bak"])}
        decin = {}
        for e in tried:
            t = decode_text(sc["content"], e)
            decin[e] = 0 if t is None else 1
        # what every observed content parses to under the encoding in use
        cls = None
        import simfile as _s
        cls = _s.ssc.SSCSimfile if ext == "ssc" else _s.sm.SMSimfile
        parsed = {"0": 0}
        for b, cid in cids.ids.items():
            t = decode_text(b, det) if det else None
            pid = 0
            if t is not None:
                try:
                    pid = projs(json.dumps(nproj(cls(string=t, strict=False)), sort_keys=True))
                except Exception:  # noqa
                    pid = 0
            parsed[str(cid)] = pid
        fault_ev = next((ev for ev in rec.events if not ev["ok"] and sc.get("fault") and ev["n"] == sc["fault"]), None)
        rec_out = {"id": rid, "kind": "mutate", "names": spec_names, "tried": list(tried), "decin": decin, "snaps": snaps,
                   "exit": result["exit_at"] if result["entry"] is not None else 0,
                   "outcome": "cancel" if sc["outcome"] == "cancel-subclass" else sc["outcome"], "exc": result["exc"],
                   "savefail": (result.get("auto", "") if sc["outcome"] == "normal" else "") or ("fault" if fault_ev else ""),
                   "faultop": fault_ev["op"] if fault_ev else "", "faultmode": fault_ev["mode"] if fault_ev else "",
                   "faultname": fault_ev["name"] if fault_ev else "",
                   "parsed": parsed, "entry": result["entry"] or 0, "exitobj": result["exit"] or 0, "det": det,
                   "idem": {"ran": False, "sameenc": False, "samebytes": False},
                   "_calls": rec.calls, "_fault_fired": bool(fault_ev)}
        # ---- idempotence: a no-op mutate on the file just written ----------------------------------
        if (result["exc"] == "" and sc["outcome"] == "normal" and not sc.get("fault") and not sc.get("unsavable")
                and not (spec_names["bak"] and spec_names["bak"] in (spec_names["in"], spec_names["out"]))):
            tgt = names["out"] or names["in"]
            before = snapshot().get(tgt)
            rec2 = fsproxy.Recorder(snapshot)
            fs2 = fsproxy.native_proxy(rec2) if sc["fs"] == "native" else fsproxy.memory_proxy(rec2, mem)
            try:
                with simfile.mutate(path(tgt), try_encodings=list(tried), filesystem=fs2):
                    pass
                reads2 = [ev for ev in rec2.events if ev["op"] == "open" and "r" in ev["mode"] and ev["ok"]]
                rec_out["idem"] = {"ran": True, "sameenc": bool(reads2) and reads2[-1]["enc"] == det,
                                   "samebytes": snapshot().get(tgt) == before}
            except BaseException as e:  # noqa
                rec_out["idem"] = {"ran": True, "sameenc": True, "samebytes": False}
        return rec_out
    finally:
        if tmp:
            shutil.rmtree(tmp, ignore_errors=True)
        if mem is not None:
            mem.close()


def detect_sequence(rid0, seed):
    """open the same path repeatedly on ONE filesystem object while its content changes between opens"""
    import simfile
    from fs.memoryfs import MemoryFS
    rng = random.Random(seed)
    ext = rng.choice(["sm", "ssc"])
    kind = rng.choice(["native", "memory"])
    tried = list(ENCS)
    if rng.random() < 0.4:
        rng.shuffle(tried)
    conts = [c for _, c in contents(rng, ext) if len(c) < 4000]
    recs = []
    tmp = mem = None
    try:
        if kind == "native":
            tmp = tempfile.mkdtemp(prefix="vdet_")
            path = os.path.join(tmp, "song." + ext)
            from simfile._private.nativeosfs import NativeOSFS
            fsx = NativeOSFS()

            def put(b):
                with open(path, "wb") as f:
                    f.write(b)
        else:
            mem = MemoryFS()
            path = "/song." + ext
            fsx = mem

            def put(b):
                mem.writebytes(path, b)
        for step in range(rng.randint(2, 4)):
            b = rng.choice(conts)
            put(b)
            dec = {e: (0 if decode_text(b, e) is None else 1) for e in tried}
            r = {"id": rid0 + step, "kind": "detect", "tried": list(tried), "dec": dec, "exc": "", "got": "", "sametext": True}
            try:
                how = rng.random()
                if how < 0.5:
                    sf, enc = simfile.open_with_detected_encoding(path, try_encodings=list(tried), filesystem=fsx, strict=False)
                else:
                    with simfile.mutate(path, try_encodings=list(tried), filesystem=fsx, strict=False) as sf:
                        raise simfile.CancelMutation()
                    enc = None
                if enc is None:
                    sf, enc = simfile.open_with_detected_encoding(path, try_encodings=list(tried), filesystem=fsx, strict=False)
                r["got"] = enc
                want = type(sf)(string=decode_text(b, enc) or "", strict=False)
                r["sametext"] = (cc.proj(sf) == cc.proj(want))
            except Exception as e:  # noqa
                r["exc"] = type(e).__name__
            recs.append(r)
    finally:
        if tmp:
            shutil.rmtree(tmp, ignore_errors=True)
        if mem is not None:
            mem.close()
    return recs


def strip(rec):
    return {k: v for k, v in rec.items() if not k.startswith("_")}


def validate(ctx, recs):
    return trace.validate(ctx, "Trace_Library", DIRS, [strip(r) for r in recs], heap="3g")


def describe(sc):
    d = {k: v for k, v in sc.items() if k != "content"}
    d["content"] = sc["content"][:60].decode("latin-1")
    return d
