"""C07 — note data text decodes to exactly one correctly placed note per non-zero cell.

(M)   MC_NoteData: every grid (players x measures x rows x columns over a small alphabet of cells,
      with and without keysound brackets) rendered under 12 layouts (LF/CRLF, padding, blank lines):
      Decode(Render) = the notes the documentation assigns to the grid; strict order; column count;
      the six comparison operators consistent with the position order.
(S2C) every grid's texts (three layouts) are iterated by the real NoteData; notes, .columns, str()
      and all six operators on every ordered pair are compared with TLC's notes / index order.
(C2S) generated well-formed texts over the whole quantifier (1..16 columns, 1..192+ rows, every note
      type, brackets, 1..3 players, padding, CRLF) and windows of the corpus charts are decoded by
      the real class; Trace_NoteData re-decodes the text in TLC and compares, plus sampled
      comparison results.
"""
import json
import random

from harness import tlc, core, trace
from harness.core import cps, uncps
from . import notedata_common as nc

INVS = ["InvDecode", "InvOrder", "InvColumns", "InvShape", "InvCompare"]


def kinds_tla(kinds):
    return "{" + ", ".join(str(ord(ch) * 100000 + k + 1) for ch, k in kinds) + "}"


def mc_cfg(cols, maxrows, maxplayers, kinds, emit=True):
    return ("SPECIFICATION Spec\nCONSTANTS\n Cols = %d\n MaxRows = %d\n MaxPlayers = %d\n KindCodes = %s\n DoEmit = %s\n%s"
            "INVARIANT Emit\n" % (cols, maxrows, maxplayers, kinds_tla(kinds), "TRUE" if emit else "FALSE",
                                  "".join("INVARIANT %s\n" % i for i in INVS)))


K4 = [("0", -1), ("1", -1), ("M", -1), ("2", 12)]
# ("0", 7): a keysound bracket on an EMPTY cell - no note, and nothing of it may reach a later row (round 10, C07-P)
K7 = [("0", -1), ("0", 7), ("1", -1), ("2", -1), ("3", -1), ("M", -1), ("1", 0), ("2", 12)]


K3 = [("0", -1), ("1", -1), ("2", 12)]
K3B = [("0", -1), ("1", -1), ("4", 7)]


def configs(quick):
    if quick:
        return [("2col", (2, 3, 3, K3)), ("1col-rich", (1, 3, 3, K7)), ("3col", (3, 2, 2, K3B))]
    # (TLC evaluates ~150 grid states per second per worker group: sizes chosen for a 10-15 minute thorough run)
    return [("2col", (2, 3, 3, K3)), ("2col-k4", (2, 3, 3, K4)), ("1col-rich", (1, 4, 3, K7)), ("3col", (3, 2, 3, K3B))]


def inexact_twins_before(text):
    """history: earlier in the same process, beats of EQUAL VALUE to this text's row beats are built from inexact
    inputs (a float, a Decimal, a decimal string - which snap to the 1/48 grid); an exact row beat read afterwards
    is still exact"""
    from fractions import Fraction
    from decimal import Decimal
    from simfile.timing import Beat
    first = text.replace("&", ",").split(",")[:3]
    for m, measure in enumerate(first):
        rows = [r for r in measure.splitlines() if r.strip()]
        for r in (1, len(rows) - 1, len(rows) // 2):
            if 0 < r < len(rows):
                b = Fraction(4 * (m * len(rows) + r), len(rows))
                try:
                    Beat(float(b))
                    d = Decimal(b.numerator) / Decimal(b.denominator)
                    Beat(d)
                    Beat(str(d))
                    Beat(float(b)) + Beat(0)
                except Exception:  # noqa
                    pass


def decode_real(text):
    from simfile.notes import NoteData
    if nc.text_mode(text) % 3 == 1:
        inexact_twins_before(text)
    nd = NoteData(text)
    notes, consistent = nc.read_notes(nd, nc.text_mode(text))
    if not consistent:
        raise InconsistentReads("two iterations of one NoteData object disagree (iteration history %d)" % (nc.text_mode(text) % 6))
    return nd, notes


class InconsistentReads(Exception):
    pass


def s2c_job(rec):
    viols = []
    n = 0
    exp = rec["notes"]
    for t in rec["texts"]:
        text = uncps(t)
        n += 1
        case = {"mode": "text", "text": text}

        def bad(key, what):
            viols.append(("C07:" + key, "%s on text %r" % (what, text), case))
        try:
            nd, notes = decode_real(text)
        except Exception as e:  # noqa
            bad("decode-raised:" + type(e).__name__, "iteration raised %r" % (e,))
            continue
        got = [nc.proj_note(x) for x in notes]
        if got != exp:
            k = next((i for i in range(min(len(got), len(exp))) if got[i] != exp[i]), None)
            bad("notes", "decoded %s, specification expects %s" % (
                [nc.show_note(x) for x in got][:12], [nc.show_note(x) for x in exp][:12]) + (" (first difference at %s)" % k))
            continue
        if nd.columns != rec["cols"]:
            bad("columns", "columns = %r, expected %d" % (nd.columns, rec["cols"]))
        if str(nd) != text:
            bad("str-differs", "str(NoteData(text)) != text")
        for i, a in enumerate(notes):
            for j, b in enumerate(notes):
                ops = (a < b, a <= b, a > b, a >= b)
                want = (i < j, i <= j, i > j, i >= j)
                if ops != want:
                    bad("comparison-operators", "notes #%d (%s) and #%d (%s): (<,<=,>,>=) = %s, position order says %s" % (
                        i, nc.show_note(got[i]), j, nc.show_note(got[j]), ops, want))
                    break
            else:
                continue
            break
        sh = notes[::-1]
        if sorted(sh) != notes or (notes and (min(sh) != notes[0] or max(sh) != notes[-1])):
            bad("sorted-differs", "sorted()/min()/max() disagree with the position order")
    return n, viols


def c2s_record(rid, text, rng, label):
    rec = {"t": "decode", "id": rid, "text": cps(text), "st": "ok", "notes": [], "columns": 0,
           "strsame": True, "cmp": [], "sortedsame": True}
    try:
        nd, notes = decode_real(text)
    except Exception as e:  # noqa
        rec["st"] = type(e).__name__
        return rec
    rec["notes"] = [nc.proj_note(x) for x in notes]
    rec["columns"] = nd.columns
    rec["strsame"] = (str(nd) == text)
    if notes:
        for n_ in range(min(40, len(notes) * len(notes))):
            i = rng.randrange(len(notes))
            # half of the pairs are neighbours (closest beats), the rest arbitrary
            j = min(len(notes) - 1, max(0, i + rng.choice([-2, -1, 1, 2]))) if n_ % 2 else rng.randrange(len(notes))
            a, b = notes[i], notes[j]
            rec["cmp"].append({"i": i + 1, "j": j + 1, "lt": bool(a < b), "le": bool(a <= b), "gt": bool(a > b), "ge": bool(a >= b)})
        sh = list(notes)
        rng.shuffle(sh)
        rec["sortedsame"] = (sorted(sh) == notes and min(sh) == notes[0] and max(sh) == notes[-1])
    return rec


def c2s(ctx, ntexts, nwindows):
    rng = random.Random(ctx.seed * 5 + 7)
    texts = [("gen", nc.gen_text(rng)) for _ in range(ntexts)]
    charts = nc.corpus_charts()
    wins = []
    for label, t in charts:
        for k, w in enumerate(nc.windows(t, 8)):
            if len(w) <= 6000:
                wins.append(("%s@%d" % (label, k), w))
    rng.shuffle(wins)
    texts += wins[:nwindows]
    recs, meta = [], {}
    for rid, (label, text) in enumerate(texts):
        recs.append(c2s_record(rid, text, rng, label))
        meta[rid] = {"mode": "text", "text": text, "label": label}
    verdict = trace.validate(ctx, "Trace_NoteData", nc.DIRS, recs)
    excluded = 0
    for rec in recs:
        cl = verdict[rec["id"]]["clause"]
        ctx.traces += 1
        ctx.evaluations += 1
        if cl.startswith("domain:"):
            excluded += 1
            continue
        if rec["notes"]:
            ctx.nontrivial_add(meta[rec["id"]]["text"])
        if cl:
            ctx.violation("C07:" + cl + (":" + rec["st"] if cl == "decode-raised" else ""),
                          "recorded decoding rejected (%s) for %s text %r" % (cl, meta[rec["id"]]["label"], meta[rec["id"]]["text"][:400]),
                          meta[rec["id"]])
    ctx.notes["c2s_excluded_by_spec_domain_predicate"] = excluded
    ctx.notes["c2s_corpus_windows"] = min(nwindows, len(wins))
    if recs:
        r = recs[3 % len(recs)]
        ctx.sample({"c2s_text": meta[r["id"]]["text"][:300], "notes": [nc.show_note(x) for x in r["notes"][:10]], "columns": r["columns"]})


def run(ctx):
    cfgs = configs(ctx.quick)
    jobs = [dict(module="MC_NoteData", cfg=mc_cfg(*args), dirs=nc.DIRS, workers=5, timeout=3000, heap="3g") for _, args in cfgs]
    results = tlc.run_many(jobs, parallel=3)
    n = 0
    for (name, args), res in zip(cfgs, results):
        if res.invariant_violated:
            ctx.violation("C07:model:%s" % res.invariant_violated,
                          "the documented decoding rules violate %s in config %s:\n%s" % (res.invariant_violated, name, (res.error_text or "")[:1500]),
                          {"mode": "model", "config": name})
            continue
        tlc.require_ok(res, "MC_NoteData " + name)
        ctx.add_tlc("MC_NoteData/" + name, res, coverage_required=())
        seen = {}
        for rec in res.printed:
            seen.setdefault(json.dumps(rec["texts"][0]), rec)
        recs = list(seen.values())
        for rec, (k, viols) in zip(recs, core.pmap(s2c_job, recs, chunk=100)):
            n += k
            for key, what, case in viols:
                ctx.violation(key, what, case)
            if rec["notes"]:
                ctx.nontrivial_add(("s2c", json.dumps(rec["texts"][0])))
        if recs:
            mid = recs[len(recs) // 2]
            ctx.sample({"s2c_text": uncps(mid["texts"][1]), "spec_notes": [nc.show_note(x) for x in mid["notes"]]})
    if n == 0:
        raise core.MachineryError("vacuity: no text replayed")
    ctx.traces += n
    ctx.evaluations += n
    ctx.notes["s2c_texts_decoded"] = n
    if ctx.quick:
        c2s(ctx, 500, 150)
    else:
        c2s(ctx, 8000, 100000)
    # whole sessions against System.tla: this check judges the rejections at the "readnotes" event
    from . import system_common as sysc
    sessions, sverdict = sysc.run_sessions(ctx, 150 if ctx.quick else 3000, ctx.seed + 7)
    sysc.judge(ctx, "C07", sessions, sverdict, {"readnotes"}, "reading a chart's notes inside a session")
    sysc.mc_for(ctx, "C07")          # MC_System: bounded model of whole sessions, every transition replayed on the library
    ctx.notes["sessions_with_a_readnotes_event"] = sum(1 for s_ in sessions if any(e["op"] == "readnotes" for e in s_["events"]))
    ctx.exhaustive = True
    ctx.rule = ("S2C: every grid of the bounded MC_NoteData configurations x 3 layouts; C2S: generated well-formed texts "
                "+ 8-measure windows of corpus charts; non-trivial = at least one note; distinct = distinct text")
    ctx.assumptions += [
        "well-formed texts only (no blank line inside a measure, known note characters, brackets after non-empty cells)",
        "C2S texts are capped at a few thousand characters so that TLC re-decodes each in bounded time; corpus charts are cut into 8-measure windows",
        "CPython's str.strip/splitlines define 'blank' and 'line' (Text.tla lists the exact code point sets)",
    ]


def replay(rec):
    case = rec["case"]
    print(rec.get("what"))
    if case.get("mode") == "text":
        nd, notes = decode_real(case["text"])
        print("columns:", nd.columns)
        for x in notes[:50]:
            print("  ", repr(x))
    return 1
