---------------------------- MODULE Trace_Timing ----------------------------
(* Validates answers recorded from the real TimingEngine / time_notes.         *)
(* One record = one timing data + the queries made on it.  For records on the   *)
(* smooth sub-domain (r.smooth) every time is an integer in U and TLC decides   *)
(* everything; otherwise TLC decides the structure and returns, for each time    *)
(* answer, the exact linear form the harness evaluates with rationals.           *)
EXTENDS Timing, Json, IOUtils, TLC
VARIABLE i
Recs == ndJsonDeserialize(IOEnv.TRACE_FILE)
N == Len(Recs)

(* a warp's length is written in thousandths of a beat and read rounded to the nearest tick *)
WarpLenQ(ml) == TICK * RRound(<<48 * ml, 1000>>)
TD(r) == [bpms |-> r.td.bpms, stops |-> r.td.stops, delays |-> r.td.delays,
          warps |-> [w \in DOMAIN r.td.warps |-> [b |-> r.td.warps[w].b, len |-> WarpLenQ(r.td.warps[w].ml)]]]

Increasing(seq) == \A k \in 1..(Len(seq) - 1) : seq[k].b < seq[k + 1].b
InDomain(td) == /\ td.bpms # <<>> /\ td.bpms[1].b = 0
                /\ Increasing(td.bpms) /\ Increasing(td.stops) /\ Increasing(td.delays) /\ Increasing(td.warps)
                /\ \A w \in DOMAIN td.warps : td.warps[w].len > 0 /\ td.warps[w].b >= 0 /\ td.warps[w].b % TICK = 0
                /\ \A s \in DOMAIN td.stops : td.stops[s].b >= 0 /\ td.stops[s].b % TICK = 0
                /\ \A d \in DOMAIN td.delays : td.delays[d].b >= 0 /\ td.delays[d].b % TICK = 0
                /\ \A k \in DOMAIN td.bpms : td.bpms[k].b % TICK = 0

(* the time a "beatsym" query asked about, as a linear form of this timeline *)
AskedL(td, q) == LET base == TimeL(td, q.b0, q.tag0) IN
                 IF q.half = 0 THEN base
                 ELSE IF q.half = 1 THEN [TimeL(td, q.b0, T_STOP) EXCEPT !.st[q.idx] = 1]      \* half-way through stop idx at b0
                 ELSE [TimeL(td, q.b0, T_DELAY) EXCEPT !.dl[q.idx] = 1]                         \* half-way through delay idx

FAKE == 70  TAPT == 49
(* time_notes: expected sequence of [i, t] (index of the input note, resulting type) *)
ExpectedTimed(td, q) ==
  LET keep(k) == Hittable(td, q.notes[k].b) \/ q.opt = "keep" \/ (q.opt = "fake" /\ q.notes[k].t = TAPT)
      idx == SelectSeq([k \in 1..Len(q.notes) |-> k], keep)
  IN [j \in DOMAIN idx |-> [i |-> idx[j],
                            t |-> IF ~Hittable(td, q.notes[idx[j]].b) /\ q.opt = "fake" THEN FAKE ELSE q.notes[idx[j]].t]]

QueryClause(r, td, q) ==
  CASE q.k = "time" -> IF r.smooth /\ q.t # Val(td, TimeL(td, q.b, q.tag)) THEN "time" ELSE ""
    [] q.k = "bpm" -> IF BpmAt(td, q.b) \in {q.got[k] : k \in DOMAIN q.got} THEN "" ELSE "bpm-at"
    [] q.k = "hit" -> IF q.got = Hittable(td, q.b) THEN "" ELSE "hittable"
    [] q.k = "beatsym" -> IF BeatAtOKL(td, AskedL(td, q), q.tag, q.B) THEN ""
                          ELSE IF q.B % TICK # 0 THEN "beat-at-not-tick-aligned"
                          ELSE IF q.half # 0 THEN "beat-at-inside-pause"
                          ELSE IF PresentL(td, AskedL(td, q), q.B) THEN "beat-at-warp-extreme" ELSE "beat-at"
    [] q.k = "beatnum" -> IF BeatAtOKN(td, q.t, q.tag, q.B) THEN ""
                          ELSE IF q.B % TICK # 0 THEN "beat-at-not-tick-aligned" ELSE "beat-at"
    [] q.k = "notes" -> LET e == ExpectedTimed(td, q) IN
                        IF Len(q.out) # Len(e) THEN "timed-notes-count"
                        ELSE IF \E j \in DOMAIN e : q.out[j].i # e[j].i THEN "timed-notes-order"
                        ELSE IF \E j \in DOMAIN e : q.out[j].t # e[j].t THEN "timed-notes-type"
                        ELSE IF \E j \in DOMAIN e : ~q.out[j].same THEN "timed-notes-fields"
                        ELSE IF r.smooth /\ \E j \in DOMAIN e : q.out[j].tm # Val(td, TimeL(td, q.notes[e[j].i].b, T_STOP)) THEN "timed-notes-time"
                        ELSE ""

(* linear forms the harness must evaluate (non-smooth records) *)
Forms(r, td) ==
  IF r.smooth THEN <<>>
  ELSE [k \in DOMAIN r.queries |->
          LET q == r.queries[k] IN
          IF q.k = "time" THEN <<TimeL(td, q.b, q.tag)>>
          ELSE IF q.k = "notes" THEN LET e == ExpectedTimed(td, q) IN [j \in DOMAIN e |-> TimeL(td, q.notes[e[j].i].b, T_STOP)]
          ELSE <<>>]

Verdict(r) ==
  LET td == TD(r) IN
  IF ~InDomain(td) THEN [id |-> r.id, clause |-> "domain:timing-data", at |-> 0, forms |-> <<>>]
  ELSE LET bad == {k \in DOMAIN r.queries : QueryClause(r, td, r.queries[k]) # ""} IN
       IF bad = {} THEN [id |-> r.id, clause |-> "", at |-> 0, forms |-> Forms(r, td)]
       ELSE LET k == CHOOSE k \in bad : \A x \in bad : k <= x IN
            [id |-> r.id, clause |-> QueryClause(r, td, r.queries[k]), at |-> k, forms |-> <<>>]

Init == i = 1
Next == i <= N /\ PrintT(ToJson(Verdict(Recs[i]))) /\ i' = i + 1
Spec == Init /\ [][Next]_i
=============================================================================
