----------------------------- MODULE MC_Timing ------------------------------
(* Bounded model for C11 / C12 / C13: every timing data with at most MaxEv     *)
(* events (BPM changes, stops, delays, warps) placed on a small beat grid -    *)
(* hence every coincidence of kinds on one beat, nested / overlapping /        *)
(* touching warps, events at beat 0 - on the smooth sub-domain (times are       *)
(* integers in U = 1/286720 s).  The state is the timing data under construction; *)
(* each AddX action adds one event keeping the lists sorted.                    *)
EXTENDS Timing, Json, TLC
CONSTANTS MaxEv, Grid, FirstU, BpmUs, PauseU, WarpLens, DoEmit
(* Grid: event positions (in q); FirstU: u of the BPM at 0; BpmUs: u's of later BPMs;  *)
(* PauseU: length of every stop/delay (U); WarpLens: warp lengths (q)                  *)
VARIABLE td
NEv == (Len(td.bpms) - 1) + Len(td.stops) + Len(td.delays) + Len(td.warps)

InsertBy(seq, x) ==      \* insert x keeping field b strictly increasing (caller ensures b is new)
  LET k == Cardinality({i \in DOMAIN seq : seq[i].b < x.b}) IN SubSeq(seq, 1, k) \o <<x>> \o SubSeq(seq, k + 1, Len(seq))
Free(seq, p) == \A i \in DOMAIN seq : seq[i].b # p

Init == td = [bpms |-> <<[b |-> 0, u |-> FirstU]>>, stops |-> <<>>, delays |-> <<>>, warps |-> <<>>]
AddBpm == \E p \in Grid \ {0}, u \in BpmUs : Free(td.bpms, p) /\ td' = [td EXCEPT !.bpms = InsertBy(@, [b |-> p, u |-> u])]
AddStop == \E p \in Grid : Free(td.stops, p) /\ td' = [td EXCEPT !.stops = InsertBy(@, [b |-> p, u |-> PauseU])]
AddDelay == \E p \in Grid : Free(td.delays, p) /\ td' = [td EXCEPT !.delays = InsertBy(@, [b |-> p, u |-> PauseU])]
AddWarp == \E p \in Grid, l \in WarpLens : Free(td.warps, p) /\ td' = [td EXCEPT !.warps = InsertBy(@, [b |-> p, len |-> l])]
Next == NEv < MaxEv /\ (AddBpm \/ AddStop \/ AddDelay \/ AddWarp)
Spec == Init /\ [][Next]_td

-----------------------------------------------------------------------------
MaxPos == LET S == Grid \cup {td.warps[w].b + td.warps[w].len : w \in DOMAIN td.warps} IN CHOOSE x \in S : \A y \in S : x >= y
EvBeats == Grid \cup {td.warps[w].b + td.warps[w].len : w \in DOMAIN td.warps}
(* probe positions: every event beat and warp end, the ticks next to them, half-tick and *)
(* quarter-tick neighbours (off the grid), a beat before zero and one after everything   *)
Probes == UNION {{p - TICK, p - TICK \div 2, p, p + TICK \div 4, p + TICK \div 2, p + TICK} : p \in EvBeats} \cup {-48 * TICK, -TICK, MaxPos + 48 * TICK}
TickProbes == {p \in Probes : p % TICK = 0}
NextProbe(b) == LET later == {x \in Probes : x > b} IN CHOOSE x \in later : \A y \in later : x <= y
MainTags == {T_WARP, T_BPM, T_STOP, T_STOP_END}

InvRefine == LET sts == States(td) IN
             \A b \in Probes, tag \in Tags : TimeOp(td, sts, b, tag) = TimeL(td, b, tag)
(* time never decreases along (beat, tag): adjacent pairs suffice (LLeq is transitive) *)
InvMonotone == \A b \in Probes :
                 /\ \A tag \in 0..5 : LLeq(TimeL(td, b, tag), TimeL(td, b, tag + 1))
                 /\ (\E x \in Probes : x > b) => LLeq(TimeL(td, b, T_STOP_END), TimeL(td, NextProbe(b), T_WARP))
InvBpm == LET sts == States(td) IN \A b \in Probes : BpmOp(td, sts, b) = BpmAt(td, b)
InvHittable == LET sts == States(td) IN \A b \in Probes : HittableOp(sts, b) = Hittable(td, b)
(* a BPM change repeating the value in force changes no answer *)
Collapse(L, k) == [L EXCEPT !.seg = [i \in 1..(Len(L.seg) - 1) |-> IF i < k - 1 THEN L.seg[i]
                                                                   ELSE IF i = k - 1 THEN L.seg[k - 1] + L.seg[k] ELSE L.seg[i + 1]]]
InvRedundantBpm ==
  \A p \in Grid \ {0} : Free(td.bpms, p) =>
    LET k == BpmAt(td, p) + 1
        td2 == [td EXCEPT !.bpms = InsertBy(@, [b |-> p, u |-> td.bpms[k - 1].u])]
    IN \A b \in Probes, tag \in {T_WARP, T_STOP, T_STOP_END} : Collapse(TimeL(td2, b, tag), k) = TimeL(td, b, tag)

(* C12: the engine's own beat_at satisfies the relation at every probe time; the symbolic and the *)
(* numeric formulation of the relation agree                                                       *)
ProbeTimes == {Val(td, TimeL(td, b, tag)) : b \in Probes, tag \in {T_WARP, T_STOP, T_STOP_END}}
              \cup {Val(td, TimeL(td, td.stops[s].b, T_STOP)) + PauseU \div 2 : s \in DOMAIN td.stops}
              \cup {Val(td, TimeL(td, td.delays[d].b, T_WARP)) + PauseU \div 2 : d \in DOMAIN td.delays}
InvBeatAt == LET sts == States(td) IN
             \A t \in ProbeTimes, tag \in MainTags : BeatAtOKN(td, t, tag, BeatAtOp(td, sts, t, tag))
InvBeatAtSym == LET sts == States(td) IN
                \A b \in Probes, tg \in {T_WARP, T_STOP, T_STOP_END} :
                  LET lt == TimeL(td, b, tg)  t == Val(td, lt) IN
                  \A tag \in {T_WARP, T_STOP} :
                    LET B0 == BeatAtOp(td, sts, t, tag) IN
                    \A B \in {B0 - TICK, B0, B0 + TICK} : BeatAtOKL(td, lt, tag, B) = BeatAtOKN(td, t, tag, B)
(* round trip on every tick no warp skips; the paused beat inside a pause *)
InvRoundTrip == LET sts == States(td) IN
                /\ \A b \in TickProbes : (~InW(td, b)) => BeatAtOp(td, sts, Val(td, TimeL(td, b, T_STOP)), T_STOP) = b
                /\ \A b \in TickProbes : (b >= 0 /\ Hittable(td, b)) =>
                     BeatAtOp(td, sts, Val(td, TimeL(td, b, T_STOP)), T_STOP) >= b
                /\ \A s \in DOMAIN td.stops : \A tag \in MainTags :
                     BeatAtOp(td, sts, Val(td, TimeL(td, td.stops[s].b, T_STOP)) + PauseU \div 2, tag) = td.stops[s].b
InvBeatMonotone == LET sts == States(td)  PT == ProbeTimes IN
                   \A t1 \in PT : LET later == {x \in PT : x > t1} IN
                     later # {} => BeatAtOp(td, sts, t1, T_STOP) <= BeatAtOp(td, sts, CHOOSE x \in later : \A y \in later : x <= y, T_STOP)

Emit == DoEmit => PrintT(ToJson([td |-> td]))
=============================================================================
