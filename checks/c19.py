"""C19 — directory and pack discovery finds exactly the right simfiles.

(M)   MC_Discovery "dir": every listing (in every order) of up to four names from an alphabet of simfile
      names in mixed case and near misses (.sm.old, .ssca, 'sm', images, audio): first listed file of each
      kind, duplicate error unless ignored, SSC preferred.  "pack": every pack of up to three entries of seven
      kinds (song directory with SM / with both, empty directory, directory holding only a nested song
      directory, loose simfile, duplicate directory, directory whose simfile has stray text).
(S2C) every emitted listing / pack is materialised on a native temp directory and on an in-memory
      PyFilesystem behind a proxy that returns listdir in the model's order; SimfileDirectory, SimfilePack,
      opendir and openpack are exercised with strict on/off, ignore_duplicate on/off and an explicit encoding.
(C2S) random trees up to depth 3 from the quantifier's vocabulary with random listing orders; every listdir
      result the library saw is logged and TLC validates the recorded answers against those listings.
"""
import json
import os
import random

from harness import tlc, core
from harness.core import cps, uncps
from . import discovery_common as dc

INVS = ["InvDir", "InvNames", "InvPack"]


def mc_cfg(mode, maxlen):
    return ("SPECIFICATION Spec\nCONSTANTS\n Mode = \"%s\"\n MaxLen = %d\n DoEmit = TRUE\n%sINVARIANT Emit\n" % (
        mode, maxlen, "".join("INVARIANT %s\n" % i for i in INVS)))


def run_dir(rid, kind, names, stray, ignore, strict, enc):
    """one simfile directory -> 'dir' record"""
    import simfile
    from simfile.dir import SimfileDirectory
    layout = {"song": {n: dc.content_for(n, n in stray) for n in names}}
    tree = dc.Tree(kind, layout, order={"song": list(names)})
    rec = {"t": "dir", "id": rid, "listing": [cps(n) for n in names], "stray": [cps(n) for n in stray], "ignore": ignore,
           "strict": strict, "enc": enc or "", "st": "ok", "sm": dc.NONE, "ssc": dc.NONE, "simfilepath": dc.NONE,
           "open": {"st": "", "file": dc.NONE}, "open2": {"st": "none"}, "opendir": {"st": "", "file": dc.NONE, "path": dc.NONE}, "encodings": []}
    try:
        d = tree.path("song")
        kw = {"strict": strict}
        if enc:
            kw["encoding"] = enc
        try:
            sd = SimfileDirectory(d, filesystem=tree.fs, ignore_duplicate=ignore)
            rec["listing"] = [cps(n) for n in tree.listed[-1][1]]
            rec["sm"], rec["ssc"], rec["simfilepath"] = dc.n_(dc.base(tree, sd.sm_path)), dc.n_(dc.base(tree, sd.ssc_path)), dc.n_(dc.base(tree, sd.simfile_path))
            for p in (sd.sm_path, sd.ssc_path):
                if p is not None and not tree.exists(p):
                    rec["st"] = "path-does-not-exist"
            tree.opened.clear()
            try:
                sd.open(**kw)
                rec["open"] = {"st": "ok", "file": dc.n_(dc.base(tree, tree.opened[-1][0]) if tree.opened else None)}
            except Exception as e:  # noqa
                rec["open"] = {"st": type(e).__name__, "file": dc.n_(dc.base(tree, tree.opened[-1][0]) if tree.opened else None)}
            rec["encodings"] = [e or "" for _, m, e in tree.opened if enc]
            # the same object again with the opposite strictness: options apply per call, nothing sticks
            try:
                sd.open(strict=not strict)
                rec["open2"] = {"st": "ok"}
            except Exception as e:  # noqa
                rec["open2"] = {"st": type(e).__name__}
        except Exception as e:  # noqa
            rec["st"] = type(e).__name__
        tree.opened.clear()
        if not ignore:
            try:
                sf, path = simfile.opendir(d, filesystem=tree.fs, **kw)
                rec["opendir"] = {"st": "ok", "file": dc.n_(dc.base(tree, tree.opened[-1][0]) if tree.opened else None), "path": dc.n_(dc.base(tree, path))}
            except Exception as e:  # noqa
                rec["opendir"] = {"st": type(e).__name__, "file": dc.NONE, "path": dc.NONE}
        else:
            rec["opendir"] = dict(rec["open"], path=rec["open"]["file"]) if rec["st"] == "ok" else {"st": rec["st"], "file": dc.NONE, "path": dc.NONE}
    finally:
        tree.close()
    return rec


def collect(it, tree, encs=None):
    """iterate a generator of simfiles (or (simfile, path)) recording the outcome per directory
    (encs: collects the encoding= of EVERY open made on the way, directory after directory)"""
    out = []
    while True:
        tree.opened.clear()
        try:
            item = next(it)
        except StopIteration:
            break
        except Exception as e:  # noqa
            if encs is not None:
                encs.extend(e_ or "" for _, m, e_ in tree.opened)
            d = tree.listed[-1][0] if tree.listed else ""
            f = tree.opened[-1][0] if tree.opened else None
            out.append({"dir": cps(os.path.basename(d)), "st": type(e).__name__, "file": dc.n_(dc.base(tree, f)) if type(e).__name__ == "MSDParserError" else dc.NONE})
            break
        if encs is not None:
            encs.extend(e_ or "" for _, m, e_ in tree.opened)
        f = tree.opened[-1][0] if tree.opened else None
        out.append({"dir": cps(os.path.basename(os.path.dirname(f))) if f else dc.NONE, "st": "ok", "file": dc.n_(dc.base(tree, f))})
    return out


def run_pack(rid, kind, entries, ignore, strict, enc, order=None):
    """entries: list of dicts name, isdir, sub (names), stray (names), nested (bool)"""
    import simfile
    from simfile.dir import SimfilePack
    layout = {}
    orders = {"pack": [e["name"] for e in entries]}
    for e in entries:
        if not e["isdir"]:
            layout[e["name"]] = dc.content_for(e["name"], False)
        else:
            sub = {}
            for n in e["sub"]:
                if n == "inner":
                    sub[n] = {"deep.sm": dc.SM_TEXT}
                else:
                    sub[n] = dc.content_for(n, n in e.get("stray", []))
            layout[e["name"]] = sub
            orders["pack/" + e["name"] if kind != "native" else os.path.join("pack", e["name"])] = list(e["sub"])
    tree = dc.Tree(kind, {"pack": layout, "beside.sm": dc.SM_TEXT}, order=orders)
    rec = {"t": "pack", "id": rid, "entries": [], "ignore": ignore, "strict": strict, "enc": enc or "", "dirs": [], "name": [], "packname": cps("pack"),
           "simfiles": [], "simfiles2": [], "openpack": [], "encodings": [], "st": "ok"}
    try:
        p = tree.path("pack")
        kw = {"strict": strict}
        if enc:
            kw["encoding"] = enc
        sp = SimfilePack(p + (tree.sep if random.random() < 0.3 else ""), filesystem=tree.fs, ignore_duplicate=ignore)
        rec["dirs"] = [cps(dc.base(tree, x)) for x in sp.simfile_dir_paths]
        rec["name"] = cps(sp.name)
        # the listings the library saw
        seen = {}
        for d, names in tree.listed:
            seen.setdefault(d, names)
        packlist = seen.get("pack", [])
        es = []
        for n in packlist:
            e = next((x for x in entries if x["name"] == n), None)
            if e is None:
                continue
            key = os.path.join("pack", n) if kind == "native" else "pack/" + n
            es.append({"name": cps(n), "isdir": e["isdir"], "sub": [cps(x) for x in seen.get(key, e["sub"] if e["isdir"] else [])],
                       "stray": [cps(x) for x in e.get("stray", [])]})
        rec["entries"] = es
        encs = [] if enc else None
        rec["simfiles"] = collect(sp.simfiles(**kw), tree, encs)
        # the SAME pack object walked a second time: same directories, same outcomes (also after a walk that raised)
        rec["simfiles2"] = collect(sp.simfiles(**kw), tree, encs)
        if not ignore:
            gen = simfile.openpack(p, filesystem=tree.fs, **kw)
            rec["openpack"] = collect((sf for sf, path in gen), tree, encs)
        else:
            rec["openpack"] = rec["simfiles"]
        rec["encodings"] = encs or []
    except Exception as e:  # noqa
        rec["st"] = type(e).__name__
    finally:
        tree.close()
    return rec


def s2c_dir_job(job):
    rid, rec, kind, seed = job
    rng = random.Random(seed)
    names = [uncps(n) for n in rec["listing"]]
    sims = [n for n in names if n.lower().endswith((".sm", ".ssc"))]
    stray = [n for n in sims if rng.random() < 0.4]
    return run_dir(rid, kind, names, stray, rng.random() < 0.5, rng.random() < 0.5, rng.choice([None, None, "utf-8", "cp1252"]))


def s2c_pack_job(job):
    rid, rec, kind, seed = job
    rng = random.Random(seed)
    entries = []
    for e in rec["entries"]:
        entries.append({"name": uncps(e["name"]), "isdir": e["isdir"], "sub": [uncps(x) for x in e["sub"]],
                        "stray": ["song.sm"] if e["kind"] == "stray" else []})
    return run_pack(rid, kind, entries, rng.random() < 0.5, rng.random() < 0.5, rng.choice([None, None, "utf-8", "cp1252", "cp932"]))


VOCAB = ["a.sm", "A.SM", "b.Sm", "a.ssc", "B.SSC", "c.sSc", "c.sm.old", "d.ssca", "sm", "ssc", "e.png", "f.ogg", "readme.txt", "song.SM", "x.smx", "y.sm~",
         ".sm", ".backup.sm", "._a.SM", ".ssc", "._B.ssc", ".hidden", "~a.sm", "#a.sm#", "a (copy).sm", "a.sm.sm"]


def gen_dir(rng):
    k = rng.choice([0, 1, 2, 2, 3, 4, 5])
    names = rng.sample(VOCAB, k)
    return names


def c2s_job(job):
    rid, seed = job
    rng = random.Random(seed)
    kind = rng.choice(["native", "memory"])
    if rng.random() < 0.5:
        names = gen_dir(rng)
        sims = [n for n in names if n.lower().endswith((".sm", ".ssc"))]
        return run_dir(rid, kind, names, [n for n in sims if rng.random() < 0.3], rng.random() < 0.5, rng.random() < 0.5,
                       rng.choice([None, None, "utf-8", "cp932"]))
    entries = []
    for i in range(rng.choice([0, 1, 2, 3, 4, 6])):
        r = rng.random()
        nm = "d%d" % i if rng.random() < 0.8 else rng.choice(["Song (final)", "bn", "x.sm", "UPPER"]) + str(i)
        if rng.random() < 0.3:
            # directories may be called anything - also like a simfile, an image or a track
            nm += rng.choice([".sm", ".SSC", ".png", ".ogg", ".mp3", " (v1.2)", ".d", ".JPG"])
        if r < 0.2:
            entries.append({"name": nm + rng.choice([".sm", ".SSC", ".png"]), "isdir": False, "sub": [], "stray": []})
        else:
            sub = gen_dir(rng)
            if rng.random() < 0.2:
                sub = sub + ["inner"]
            sims = [n for n in sub if n.lower().endswith((".sm", ".ssc"))]
            entries.append({"name": nm, "isdir": True, "sub": sub, "stray": [n for n in sims if rng.random() < 0.25]})
    rng.shuffle(entries)
    return run_pack(rid, kind, entries, rng.random() < 0.5, rng.random() < 0.5, rng.choice([None, None, "utf-8", "cp1252", "cp949"]))


def judge(ctx, recs, verdict, label):
    for r in recs:
        cl = verdict[r["id"]]["clause"]
        ctx.traces += 1
        ctx.evaluations += 1
        key = json.dumps({k: v for k, v in r.items() if k != "id"}, sort_keys=True)
        if (r["t"] == "dir" and r["listing"]) or (r["t"] == "pack" and r["entries"]):
            ctx.nontrivial_add(key)
        if r.get("st") not in ("ok", "DuplicateSimfileError") and r["t"] == "pack":
            cl = cl or ("pack-raised:" + r["st"])
        if cl:
            shown = {"t": r["t"], "ignore": r["ignore"], "strict": r["strict"], "enc": r["enc"]}
            if r["t"] == "dir":
                shown.update(listing=[uncps(x) for x in r["listing"]], stray=[uncps(x) for x in r["stray"]], st=r["st"], sm=uncps(r["sm"]),
                             ssc=uncps(r["ssc"]), open=r["open"]["st"], opendir=r["opendir"]["st"])
            else:
                shown.update(entries=[(uncps(e["name"]), e["isdir"], [uncps(x) for x in e["sub"]]) for e in r["entries"]],
                             dirs=[uncps(x) for x in r["dirs"]], simfiles=[(uncps(x["dir"]), x["st"]) for x in r["simfiles"]],
                             openpack=[(uncps(x["dir"]), x["st"]) for x in r["openpack"]])
            ctx.violation("C19:" + cl, "recorded %s run rejected (%s): %s" % (r["t"], cl, json.dumps(shown)[:900]), {"mode": "record", "record": r})


def run(ctx):
    quick = ctx.quick
    allrecs = []
    for mode, ml in (("dir", 3 if quick else 4), ("pack", 3)):
        res = tlc.run(module="MC_Discovery", cfg=mc_cfg(mode, ml), dirs=dc.DIRS, workers=16, timeout=3000, heap="6g")
        if res.invariant_violated:
            ctx.violation("C19:model:" + res.invariant_violated, "the specification violates %s:\n%s" % (res.invariant_violated, (res.error_text or "")[:1500]), {"mode": "model"})
            continue
        tlc.require_ok(res, "MC_Discovery " + mode)
        ctx.add_tlc("MC_Discovery/" + mode, res)
        cases = res.printed
        jobs = []
        for i, rec in enumerate(cases):
            for kind in (("native", "memory") if (not quick or i % 3 == 0) else (("memory",) if i % 2 else ("native",))):
                jobs.append((len(allrecs) + len(jobs), rec, kind, ctx.seed * 1009 + i))
        out = core.pmap(s2c_dir_job if mode == "dir" else s2c_pack_job, jobs, chunk=50)
        allrecs += out
        ctx.notes["s2c_%s_cases" % mode] = len(jobs)
    n = 600 if quick else 20000
    base = len(allrecs)
    allrecs += core.pmap(c2s_job, [(base + i, ctx.seed * 4001 + i) for i in range(n)], chunk=50)
    verdict = dc.validate(ctx, allrecs)
    judge(ctx, allrecs, verdict, "all")
    ctx.notes["c2s_random_trees"] = n
    r = allrecs[base + 1]
    ctx.sample({"c2s": {k: (v if k not in ("listing", "stray", "entries", "dirs") else "...") for k, v in r.items()},
                "listing": [uncps(x) for x in r.get("listing", [])] if r["t"] == "dir" else [uncps(e["name"]) for e in r["entries"]]})
    ctx.exhaustive = True
    ctx.rule = ("S2C: every listing (all orders) / pack of the bounded model on native and in-memory filesystems with forced listing order; "
                "C2S: random trees; one evaluation per recorded directory or pack run; distinct = distinct record")
    ctx.assumptions += [
        "listing order is an input: the proxy logs what the library's own listdir calls returned",
        "a file named exactly '.sm' / '.ssc' is left out of the vocabulary (whether that is a simfile is not settled by the property)",
        "loader options are observed through their effect (stray text + strict) and through the encodings the proxy sees in open calls",
    ]


def replay(rec):
    print(rec.get("what"))
    return 1
