---------------------------- MODULE MC_NoteData -----------------------------
(* Bounded model for C07: every grid of cells (players x measures x rows x   *)
(* columns over a small alphabet of cell kinds) is rendered under every       *)
(* layout of a small layout set, decoded, and compared with the notes the     *)
(* documentation assigns to the grid.                                         *)
EXTENDS NoteData, Json
CONSTANTS Cols, MaxRows, MaxPlayers, KindCodes, DoEmit
(* cfg files cannot hold records: a cell kind is coded ch * 100000 + (k + 1) *)
Kinds == {[ch |-> c \div 100000, k |-> (c % 100000) - 1] : c \in KindCodes}
(* Kinds: set of cells [ch, k]; the grid is a sequence of players, each a     *)
(* sequence of measures, each a non-empty sequence of rows [1..Cols -> Kinds] *)
VARIABLE grid
vars == <<grid>>

RowSet == [1..Cols -> Kinds]
TotalRows(g) == LET F[p \in 0..Len(g)] == IF p = 0 THEN 0 ELSE F[p - 1] +
                      (LET G[m \in 0..Len(g[p])] == IF m = 0 THEN 0 ELSE G[m - 1] + Len(g[p][m]) IN G[Len(g[p])])
                IN F[Len(g)]

Init == \E r \in RowSet : grid = << << <<r>> >> >>
LastP == grid[Len(grid)]
LastM == LastP[Len(LastP)]
AddRow == /\ TotalRows(grid) < MaxRows
          /\ \E r \in RowSet : grid' = [grid EXCEPT ![Len(grid)][Len(LastP)] = Append(@, r)]
NewMeasure == /\ TotalRows(grid) < MaxRows
              /\ \E r \in RowSet : grid' = [grid EXCEPT ![Len(grid)] = Append(@, <<r>>)]
NewPlayer == /\ TotalRows(grid) < MaxRows /\ Len(grid) < MaxPlayers
             /\ \E r \in RowSet : grid' = Append(grid, << <<r>> >>)
Next == AddRow \/ NewMeasure \/ NewPlayer
Spec == Init /\ [][Next]_vars

-----------------------------------------------------------------------------
(* the notes the documentation assigns to the grid *)
GridNotes ==
  Concat([p \in DOMAIN grid |->
    Concat([m \in DOMAIN grid[p] |->
      LET rows == grid[p][m]  n == Len(rows) IN
      Concat([r \in DOMAIN rows |->
        LET b == Norm(<<4 * ((m - 1) * n + (r - 1)), n>>)
            nz == SelectSeq([c \in 1..Cols |-> c], LAMBDA c : rows[r][c].ch # ZERO)
        IN [i \in DOMAIN nz |-> [p |-> p - 1, n |-> b[1], d |-> b[2], c |-> nz[i] - 1,
                                 t |-> rows[r][nz[i]].ch, k |-> rows[r][nz[i]].k]]])])])

(* layouts: line break, padding around rows, blank lines around measures / separators *)
Layouts == {[nl |-> n, pad |-> pb[1], blank |-> pb[2]] : n \in {<<LF>>, <<CR, LF>>},
                                                          pb \in {<< <<>>, FALSE >>, << <<SP>>, TRUE >>, << <<9>>, TRUE >>, << <<SP, SP>>, FALSE >>}}
CellTxt(cell) == IF cell.k < 0 THEN <<cell.ch>> ELSE <<cell.ch, LBR>> \o NatText(cell.k) \o <<RBR>>
RowTxt(row, lay) == lay.pad \o Concat([c \in 1..Cols |-> CellTxt(row[c])]) \o lay.pad \o lay.nl
MeasureTxt(rows, lay) == (IF lay.blank THEN lay.nl \o <<SP>> \o lay.nl ELSE <<>>)
                         \o Concat([r \in DOMAIN rows |-> RowTxt(rows[r], lay)])
                         \o (IF lay.blank THEN lay.nl ELSE <<>>)
PlayerTxt(ms, lay) == JoinWith([m \in DOMAIN ms |-> MeasureTxt(ms[m], lay)], <<COMMA>> \o lay.nl)
Render(lay) == JoinWith([p \in DOMAIN grid |-> PlayerTxt(grid[p], lay)], <<AMP>> \o lay.nl)

(* (GridNotes is bound once per evaluation with LET: TLC re-evaluates a state-level definition at every reference) *)
InvDecode == LET gn == GridNotes IN \A lay \in Layouts : Decode(Render(lay)) = gn
InvOrder == StrictlyIncreasing(GridNotes)
InvColumns == \A lay \in Layouts : LET t == Render(lay) IN Columns(t) = Cols /\ AllRowsWide(t, Cols)
InvShape == LET sh == [p \in DOMAIN grid |-> [m \in DOMAIN grid[p] |-> Len(grid[p][m])]] IN
            \A lay \in Layouts : Shape(Render(lay)) = sh
(* the six comparison operators, defined from the position order, are mutually consistent *)
InvCompare == LET gn == GridNotes IN
              \A i, j \in DOMAIN gn :
                LET a == gn[i]  b == gn[j] IN
                /\ PosLess(a, b) <=> i < j
                /\ PosLeq(a, b) <=> i <= j
                /\ PosEq(a, b) <=> i = j

LayA == [nl |-> <<LF>>, pad |-> <<>>, blank |-> FALSE]
LayB == [nl |-> <<CR, LF>>, pad |-> <<SP>>, blank |-> TRUE]
LayC == [nl |-> <<LF>>, pad |-> <<9>>, blank |-> TRUE]
Emit == DoEmit => PrintT(ToJson([texts |-> <<Render(LayA), Render(LayB), Render(LayC)>>, notes |-> GridNotes, cols |-> Cols]))
=============================================================================
