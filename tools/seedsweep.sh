#!/bin/sh
# run every claimed check's quick tier under several seeds; print one line per run
cd "$(dirname "$0")/.." || exit 2
export VERIF_EVIDENCE_DIR=${VERIF_EVIDENCE_DIR:-/tmp/sweep_evidence}
mkdir -p "$VERIF_EVIDENCE_DIR"
CHECKS=${CHECKS:-$(/venv/bin/python -c "import json;print(' '.join(c['property_id'] for c in json.load(open('MANIFEST.json'))['checks']))")}
for s in ${SEEDS:-1 2 3 4 5}; do
  for c in $CHECKS; do
    out=$(VERIF_SEED=$s ./check $c --tier ${TIER:-quick} 2>&1)
    rc=$?
    echo "seed=$s $c rc=$rc $(echo "$out" | tail -1 | cut -c1-200)"
    if [ $rc -ne 0 ]; then echo "$out" | grep -E "key=|MACHINERY|violation classes" | head -5 | cut -c1-600; fi
  done
done
