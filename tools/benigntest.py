#!/venv/bin/python
"""Run every check against a behaviour-preserving change of garcia/simfile: none may raise an alarm.

  tools/benigntest.py <src_dir> <id> [--checks C01,C02] [--tier quick] [--seed N]

<src_dir> holds patch.diff (and notes.md).  The patch is applied in a scratch worktree of /repo's
HEAD under /tmp (removed afterwards), the existing suite is run, then each check runs with
VERIF_REPO=<worktree>.  On completion the change and the outcome are stored as /verif/benign/<id>/.
Exit 0 iff no check reported a violation (or failed).
"""
import argparse
import json
import os
import shutil
import subprocess
import sys
import time

VERIF = os.path.dirname(os.path.dirname(os.path.abspath(__file__)))


def sh(cmd, cwd=None, env=None, timeout=7200):
    p = subprocess.run(cmd, cwd=cwd, env=env, shell=isinstance(cmd, str), stdout=subprocess.PIPE,
                       stderr=subprocess.STDOUT, text=True, timeout=timeout)
    return p.returncode, p.stdout


def main():
    ap = argparse.ArgumentParser()
    ap.add_argument("src")
    ap.add_argument("id")
    ap.add_argument("--checks", default=None)
    ap.add_argument("--tier", default="quick")
    ap.add_argument("--seed", default=None)
    ap.add_argument("--no-store", action="store_true")
    a = ap.parse_args()
    a.src = os.path.abspath(a.src)
    man = json.load(open(os.path.join(VERIF, "MANIFEST.json")))
    checks = a.checks.split(",") if a.checks else [c["property_id"] for c in man["checks"]]
    wt = "/tmp/bv_%s_%d" % (a.id.replace("/", "_"), os.getpid())
    rc, out = sh(["git", "-C", "/repo", "worktree", "add", "-q", "--detach", wt, "HEAD"])
    if rc:
        print(out)
        return 2
    meta = {"id": a.id, "repo_head": sh("git -C /repo rev-parse --short HEAD")[1].strip(), "tier": a.tier,
            "suite": "", "checks": {}}
    bad = 0
    try:
        rc, out = sh(["git", "apply", os.path.join(a.src, "patch.diff")], cwd=wt)
        if rc:
            print("patch does not apply:\n" + out)
            return 2
        rc1, out1 = sh("/venv/bin/python -m pytest -q -p no:cacheprovider --timeout=900 --deselect simfile/tests/test_assets.py::TestAssets::test_predefined_assets 2>&1 | tail -3", cwd=wt)
        meta["suite"] = out1.strip().splitlines()[-1] if out1.strip() else ""
        print("suite:", meta["suite"])
        for c in checks:
            env = dict(os.environ, VERIF_REPO=wt, VERIF_EVIDENCE_DIR="/tmp/bv_evidence")
            if a.seed:
                env["VERIF_SEED"] = a.seed
            t0 = time.time()
            rc, out = sh(["./check", c, "--tier", a.tier], cwd=VERIF, env=env)
            lines = [l for l in out.splitlines() if l.startswith(("VIOLATION", "  key=", "  violation classes", "MACHINERY"))]
            meta["checks"][c] = {"exit": rc, "wall_s": round(time.time() - t0, 1),
                                 "classes": next((l.strip() for l in lines if "violation classes" in l), "")[:600]}
            print("check %s (%s): exit %d in %.0fs" % (c, a.tier, rc, time.time() - t0))
            if rc:
                bad += 1
                for l in lines[:8]:
                    print("   " + l[:500])
                if not lines:
                    print(out[-1500:])
        if not a.no_store:
            dst = os.path.join(VERIF, "benign", a.id)
            os.makedirs(dst, exist_ok=True)
            for f in ("patch.diff", "notes.md"):
                if os.path.exists(os.path.join(a.src, f)) and os.path.realpath(a.src) != os.path.realpath(dst):
                    shutil.copy(os.path.join(a.src, f), os.path.join(dst, f))
            with open(os.path.join(dst, "meta.json"), "w") as f:
                json.dump(meta, f, indent=1)
    finally:
        sh(["git", "-C", "/repo", "worktree", "remove", "--force", wt])
        shutil.rmtree(wt, ignore_errors=True)
    return 1 if bad else 0


if __name__ == "__main__":
    sys.exit(main())
