"""Shared by C19 (directory / pack discovery) and C20 (asset lookup): materialising listing-level
trees on a native temp directory or an in-memory PyFilesystem behind a proxy that (a) returns
listdir results in a prescribed order and (b) records every listdir result and every open."""
import io
import os
import posixpath
import random
import shutil
import tempfile

from harness import core, trace
from harness.core import cps, uncps

DIRS = ["discovery"]
NONE = [-1]
SM_TEXT = "#TITLE:t;\n#BPMS:0=120;\n"
SSC_TEXT = "#VERSION:0.83;\n#TITLE:t;\n#BPMS:0=120;\n"
STRAY = "stray text here\n"


class Tree:
    """root directory holding nested dicts: name -> str/bytes (file) | dict (directory)"""

    def __init__(self, kind, layout, order=None):
        self.kind = kind
        self.order = order or {}          # relative dir path ('' = root) -> list of names in the order listdir must return
        self.listed = []                  # (relative dir path, [names]) as returned to the library
        self.opened = []                  # (relative path, mode, encoding)
        self.tmp = None
        self.mem = None
        if kind == "native":
            self.tmp = tempfile.mkdtemp(prefix="vdisc_")
            self.root = self.tmp
            self.sep = os.sep
        else:
            from fs.memoryfs import MemoryFS
            self.mem = MemoryFS()
            self.root = "/"
            self.sep = "/"
        self._make(self.root, layout)
        self.fs = self._proxy()

    def path(self, *parts):
        if self.kind == "native":
            return os.path.join(self.root, *parts)
        return posixpath.join(self.root, *parts)

    def rel(self, p):
        if p is None:
            return None
        if self.kind == "native":
            r = os.path.relpath(p, self.root)
        else:
            r = posixpath.relpath(posixpath.join("/", p), self.root)       # (a PyFilesystem path may be given without the leading slash)
        return "" if r == "." else r

    def _make(self, base, layout):
        for name, v in layout.items():
            p = os.path.join(base, name) if self.kind == "native" else posixpath.join(base, name)
            if isinstance(v, dict):
                if self.kind == "native":
                    os.makedirs(p, exist_ok=True)
                else:
                    self.mem.makedirs(p, recreate=True)
                self._make(p, v)
            else:
                data = v.encode("utf-8") if isinstance(v, str) else v
                if self.kind == "native":
                    with open(p, "wb") as f:
                        f.write(data)
                else:
                    self.mem.writebytes(p, data)

    def _ordered(self, path, names):
        want = self.order.get(self.rel(path))
        if want is None:
            out = sorted(names)
        else:
            out = [n for n in want if n in names] + sorted(n for n in names if n not in want)
        self.listed.append((self.rel(path), list(out)))
        return out

    def _proxy(self):
        tree = self
        if self.kind == "native":
            from simfile._private.nativeosfs import NativeOSFS

            class P(NativeOSFS):
                def listdir(self, sys_path):
                    return tree._ordered(sys_path, os.listdir(sys_path))

                def open(self, path, mode="r", *a, **kw):
                    tree.opened.append((tree.rel(path), mode, kw.get("encoding")))
                    return io.open(path, mode, *a, **kw)
            return P()
        from fs.wrapfs import WrapFS
        mem = self.mem

        class M(WrapFS):
            def listdir(self, path):
                return tree._ordered(path, mem.listdir(path))

            def open(self, path, mode="r", buffering=-1, encoding=None, errors=None, newline="", **options):
                tree.opened.append((tree.rel(path), mode, encoding))
                return mem.open(path, mode, buffering=buffering, encoding=encoding, errors=errors, newline=newline, **options)
        return M(mem)

    def exists(self, p):
        if p is None:
            return False
        return os.path.exists(p) if self.kind == "native" else self.mem.exists(p)

    def close(self):
        if self.tmp:
            shutil.rmtree(self.tmp, ignore_errors=True)
        if self.mem is not None:
            self.mem.close()


def n_(s):
    return NONE if s is None else cps(s)


def base(tree, p):
    if p is None:
        return None
    return os.path.basename(p) if tree.kind == "native" else posixpath.basename(p)


def content_for(name, stray):
    low = name.lower()
    if low.endswith(".ssc"):
        return (STRAY if stray else "") + SSC_TEXT
    if low.endswith(".sm"):
        return (STRAY if stray else "") + SM_TEXT
    return "x"


def validate(ctx, recs):
    return trace.validate(ctx, "Trace_Discovery", DIRS, recs, heap="3g")
