------------------------------ MODULE MC_Load ------------------------------
(* Bounded model of loading (C03) and of the load/save/load cycle (C04):    *)
(* every text assembled from a small alphabet of symbols, where some        *)
(* symbols expand to whole keys (NOTES, VERSION, NOTEDATA, ATTACKS in two    *)
(* letter cases), so that short symbol strings exercise charts, duplicate    *)
(* keys, key-only and multi-component parameters, stray text and missing     *)
(* semicolons.  Emits the expected outcome of every entry-point class.       *)
EXTENDS Codec, Json, TLC
CONSTANTS Symbols, MaxLen, First, DoEmit
VARIABLE syms

Expand(s) == CASE s = 1 -> K_NOTES
               [] s = 2 -> K_VERSION
               [] s = 3 -> K_NOTEDATA
               [] s = 4 -> K_ATTACKS
               [] s = 5 -> Lower(K_NOTES)
               [] s = 6 -> <<86, 101, 114, 115, 105, 111, 110>>      \* "Version"
               [] s = 7 -> <<COLON, COLON, COLON, COLON, COLON, COLON>>  \* six empty components
               [] s = 8 -> <<HASH>> \o K_NOTEDATA \o <<COLON, SEMI, HASH>> \o K_NOTES \o <<COLON, 97, SEMI>>  \* "#NOTEDATA:;#NOTES:a;"
               [] s = 9 -> K_NOTES2
               [] OTHER -> <<s>>
Text == Concat([k \in DOMAIN syms |-> Expand(syms[k])])

Init == syms = IF First = 0 THEN <<>> ELSE <<First>>
Grow == Len(syms) < MaxLen /\ \E s \in Symbols : syms' = Append(syms, s)
Spec == Init /\ [][Grow]_syms

Entries == {"anon", "sm_ctor", "ssc_ctor"}
Res(strict, e) == Load(Text, strict, e, <<>>)

(* strict rejection happens exactly when the lenient reading exists and the strict one does not *)
InvStrictness == \A e \in Entries :
                   LET s == Res(TRUE, e)  l == Res(FALSE, e) IN
                   /\ l.st # "MSDParserError"
                   /\ s.st \in {"ok", "ValueError"} => s = l
(* the loader's result is a function of (text, strict, format): entry points that fix the *)
(* format agree with auto-detection whenever auto-detection picks that format              *)
InvEntryAgree == \A strict \in BOOLEAN :
                   LET a == Res(strict, "anon") IN
                   a.st = "ok" => Res(strict, IF a.fmt = "ssc" THEN "ssc_ctor" ELSE "sm_ctor") = a
(* C04: load, save, load loses nothing; second save is a no-op (design level) *)
CycleOK(r) ==
  LET o == r.obj
      gap == (IF r.fmt = "sm" THEN SMObjInGap(o) \/ SMExtraGap(o) ELSE SSCObjInGap(o)) \/ ObjCtxGap(o, r.fmt)
      allnotes == r.fmt = "sm" \/ \A j \in DOMAIN o.charts : ChartHasNotes(o.charts[j])
  IN (r.st = "ok" /\ ~gap /\ allnotes) =>
       LET out == IF r.fmt = "sm" THEN SerSM(o) ELSE SerSSC(o)
           r2  == Load(out, TRUE, IF r.fmt = "sm" THEN "sm_ctor" ELSE "ssc_ctor", <<>>)
           exp == IF r.fmt = "sm" THEN o ELSE NormSSC(o)
       IN /\ r2.st = "ok" /\ r2.obj = exp
          /\ (IF r.fmt = "sm" THEN SerSM(r2.obj) ELSE SerSSC(r2.obj)) = out
InvCycle == \A e \in Entries : CycleOK(Res(FALSE, e)) /\ CycleOK(Res(TRUE, e))

(* file names of the "named" entry points: a.sm a.ssc A.SM a.txt a.sm.bak b.SsC a.ssc.old .ssc .Sm v1.2.ssc *)
NameSeq == << <<97, 46, 115, 109>>, <<97, 46, 115, 115, 99>>, <<65, 46, 83, 77>>,
              <<97, 46, 116, 120, 116>>, <<97, 46, 115, 109, 46, 98, 97, 107>>,
              <<98, 46, 83, 115, 67>>, <<97, 46, 115, 115, 99, 46, 111, 108, 100>>,
              <<46, 115, 115, 99>>, <<46, 83, 109>>, <<118, 49, 46, 50, 46, 115, 115, 99>> >>
ResN(strict, n) == Load(Text, strict, "named", NameSeq[n])

(* a file name decides the format only through its last dot-suffix *)
InvNamed == \A n \in DOMAIN NameSeq, strict \in BOOLEAN :
              LET r == ResN(strict, n)  suf == LastDotSuffix(Lower(NameSeq[n])) IN
              r = Res(strict, IF suf = <<115, 115, 99>> THEN "ssc_ctor"
                              ELSE IF suf = <<115, 109>> THEN "sm_ctor" ELSE "anon")

(* what the real load/save/load cycle must produce (S2C for C04) *)
CycInfo(r) ==
  LET o == r.obj
      gap == (IF r.fmt = "sm" THEN SMObjInGap(o) \/ SMExtraGap(o) ELSE SSCObjInGap(o)) \/ ObjCtxGap(o, r.fmt)
      allnotes == r.fmt = "sm" \/ \A j \in DOMAIN o.charts : ChartHasNotes(o.charts[j])
  IN [dom |-> r.st = "ok" /\ ~gap /\ allnotes, fmt |-> r.fmt,
      exp |-> IF r.fmt = "ssc" THEN NormSSC(o) ELSE o]
EmitCycle == PrintT(ToJson([text |-> Text,
               cyc |-> [e \in Entries |-> [s |-> CycInfo(Res(TRUE, e)), l |-> CycInfo(Res(FALSE, e))]]]))

Emit == DoEmit => PrintT(ToJson([text |-> Text,
           res |-> [e \in Entries |-> [s |-> Res(TRUE, e), l |-> Res(FALSE, e)]],
           named |-> [n \in DOMAIN NameSeq |-> [name |-> NameSeq[n], s |-> ResN(TRUE, n), l |-> ResN(FALSE, n)]]]))
=============================================================================
