------------------------------ MODULE Convert -------------------------------
(* simfile.convert: sm_to_ssc and ssc_to_sm.                                  *)
(* Simfiles are ordered maps as in Codec: items = Seq([k, v]) with k a string   *)
(* and v a text (Seq of code points) or None; SM charts are six fields, SSC      *)
(* charts ordered maps.  The tables below are transcribed from the documentation *)
(* of simfile.convert (which kinds of SSC-only properties exist, their default    *)
(* handling and their default values).                                            *)
EXTENDS Text

Kinds == {"version", "metadata", "filepath", "gameplay", "timing"}
Behaviours == {"copy", "ignore", "unlessdefault", "error"}
DefaultBehaviour(kind) == IF kind \in {"gameplay", "timing"} THEN "unlessdefault" ELSE "ignore"

SMSimfileKind(k) ==
  IF k \in {"VERSION"} THEN "version" ELSE
  IF k \in {"ORIGIN", "TIMESIGNATURES", "LABELS", "MUSICLENGTH", "LASTSECONDHINT"} THEN "metadata" ELSE
  IF k \in {"PREVIEWVID", "JACKET", "CDIMAGE", "DISCIMAGE", "PREVIEW"} THEN "filepath" ELSE
  IF k \in {"COMBOS", "SPEEDS", "SCROLLS", "FAKES"} THEN "gameplay" ELSE
  IF k \in {"WARPS"} THEN "timing" ELSE
  ""

SMChartKind(k) ==
  IF k \in {"CHARTNAME", "CHARTSTYLE", "CREDIT", "DISPLAYBPM", "TIMESIGNATURES", "LABELS"} THEN "metadata" ELSE
  IF k \in {"TICKCOUNTS", "COMBOS", "SPEEDS", "SCROLLS", "FAKES", "ATTACKS"} THEN "gameplay" ELSE
  IF k \in {"OFFSET", "BPMS", "STOPS", "DELAYS", "WARPS"} THEN "timing" ELSE
  ""

DefaultValue(k) ==
  IF k = "TIMESIGNATURES" THEN <<48, 46, 48, 48, 48, 61, 52, 61, 52>> ELSE
  IF k = "TICKCOUNTS" THEN <<48, 46, 48, 48, 48, 61, 52>> ELSE
  IF k = "COMBOS" THEN <<48, 46, 48, 48, 48, 61, 49>> ELSE
  IF k = "SPEEDS" THEN <<48, 46, 48, 48, 48, 61, 49, 46, 48, 48, 48, 61, 48, 46, 48, 48, 48, 61, 48>> ELSE
  IF k = "SCROLLS" THEN <<48, 46, 48, 48, 48, 61, 49, 46, 48, 48, 48>> ELSE
  IF k = "LABELS" THEN <<48, 46, 48, 48, 48, 61, 83, 111, 110, 103, 32, 83, 116, 97, 114, 116>> ELSE
  <<>>

SMFields == <<"STEPSTYPE", "DESCRIPTION", "DIFFICULTY", "METER", "RADARVALUES", "NOTES">>
SMFieldSet == {SMFields[i] : i \in 1..6}

(* ordered maps *)
Has(it, k) == \E i \in DOMAIN it : it[i].k = k
Idx(it, k) == CHOOSE i \in DOMAIN it : it[i].k = k
Get(it, k) == it[Idx(it, k)].v
Put(it, k, v) == IF Has(it, k) THEN [it EXCEPT ![Idx(it, k)].v = v] ELSE Append(it, [k |-> k, v |-> v])

(* the behaviour in force for a kind: the caller's mapping (a function on a subset of Kinds) or the default *)
BehaviourOf(beh, kind) == IF kind \in DOMAIN beh THEN beh[kind] ELSE DefaultBehaviour(kind)

(* what happens to one source property: "copy" | "skip" | "raise" *)
Decide(kind, k, v, beh) ==
  IF kind = "" THEN "copy"
  ELSE LET b == BehaviourOf(beh, kind) IN
       IF b = "copy" THEN "copy"
       ELSE IF b = "ignore" THEN "skip"
       ELSE IF b = "unlessdefault" /\ ~IsNone(v) /\ Strip(v) = DefaultValue(k) THEN "skip"
       ELSE "raise"

-----------------------------------------------------------------------------
(* timing strings: "beat=value,beat=value" *)
NonBlank(v) == ~IsNone(v) /\ ~AllSpace(v)
Rows(v) == IF ~NonBlank(v) THEN <<>> ELSE LET rs == SplitOn(v, COMMA) IN [i \in DOMAIN rs |-> Strip(rs[i])]
RowValue(row) == LET ps == SplitOn(row, EQ) IN IF Len(ps) >= 2 THEN Strip(ps[2]) ELSE <<>>
IsNegative(t) == t # <<>> /\ t[1] = 45 /\ \E i \in DOMAIN t : t[i] >= 49 /\ t[i] <= 57
HasNegative(v) == \E i \in DOMAIN Rows(v) : IsNegative(RowValue(Rows(v)[i]))

(* the stops / background changes an SM simfile's own reader sees (alias only when the standard key is absent) *)
AttrSM(items, name, alias) == IF Has(items, name) THEN Get(items, name) ELSE IF Has(items, alias) THEN Get(items, alias) ELSE None

-----------------------------------------------------------------------------
(* ssc_to_sm *)
(* Item keys may be of any type (strings in MC_Convert / Trace_Convert, code-point sequences in   *)
(* System.tla): N(k) gives the NAME of key k as the tables above spell it ("" for any other key). *)
IdN(k) == k
(* the copy plan of a sequence of source items against a kind table: list of [k, v, d] *)
PlanG(items, kindOf(_), beh, N(_)) ==
  [i \in DOMAIN items |-> [k |-> items[i].k, v |-> items[i].v,
                           d |-> Decide(kindOf(N(items[i].k)), N(items[i].k), items[i].v, beh)]]
Plan(items, kindOf(_), beh) == PlanG(items, kindOf, beh, IdN)
FirstRaise(plan) == LET R == {i \in DOMAIN plan : plan[i].d = "raise"} IN IF R = {} THEN 0 ELSE CHOOSE i \in R : \A j \in R : i <= j
(* a chart-level copy of a key the SM chart cannot hold (known finding: bare KeyError) *)
BadChartCopyG(plan, N(_)) == LET B == {i \in DOMAIN plan : plan[i].d = "copy" /\ N(plan[i].k) \notin SMFieldSet} IN
                             IF B = {} THEN 0 ELSE CHOOSE i \in B : \A j \in B : i <= j
BadChartCopy(plan) == BadChartCopyG(plan, IdN)

RECURSIVE ApplyPlan(_, _, _)
ApplyPlan(out, plan, i) == IF i > Len(plan) THEN out
                           ELSE ApplyPlan(IF plan[i].d = "copy" THEN Put(out, plan[i].k, plan[i].v) ELSE out, plan, i + 1)

(* result: [st |-> "ok", items, charts] | [st |-> "InvalidPropertyException", key] | [st |-> "NotImplementedError"] | [st |-> "KeyError"] *)
Fail(st, key) == [st |-> st, key |-> key, items |-> <<>>, charts |-> <<>>]
(* one chart: the converted chart (as an ordered map in `items`) or the failure *)
ChartOutcome(chart, ctmpl, beh, N(_)) ==
  LET plan == PlanG(chart, SMChartKind, beh, N)
      r == FirstRaise(plan)  b == BadChartCopyG(plan, N) IN
  IF b # 0 /\ (r = 0 \/ b < r) THEN Fail("KeyError", plan[b].k)
  ELSE IF r # 0 THEN Fail("InvalidPropertyException", plan[r].k)
  ELSE [st |-> "ok", key |-> "", items |-> ApplyPlan(ctmpl, plan, 1), charts |-> <<>>]

(* charts are converted in order; the first failing chart decides *)
SscToSmG(src, tmpl, ctmpl, beh, N(_)) ==
  IF (\E i \in DOMAIN src.items : N(src.items[i].k) = "WARPS" /\ NonBlank(src.items[i].v)) THEN Fail("NotImplementedError", "WARPS")
  ELSE LET plan == PlanG(src.items, SMSimfileKind, beh, N)  r == FirstRaise(plan) IN
       IF r # 0 THEN Fail("InvalidPropertyException", plan[r].k)
       ELSE LET outs == [j \in DOMAIN src.charts |-> ChartOutcome(src.charts[j], ctmpl, beh, N)]
                bad == {j \in DOMAIN outs : outs[j].st # "ok"} IN
            IF bad # {} THEN outs[CHOOSE j \in bad : \A m \in bad : j <= m]
            ELSE [st |-> "ok", key |-> "", items |-> ApplyPlan(tmpl.items, plan, 1),
                  charts |-> tmpl.charts \o [j \in DOMAIN outs |-> outs[j].items]]
SscToSm(src, tmpl, ctmpl, beh) == SscToSmG(src, tmpl, ctmpl, beh, IdN)

(* the same outcome stated declaratively (checked against the fold by TLC):                      *)
(* every source property is in the result iff it is representable or its behaviour says "copy"; *)
(* nothing else changes with respect to the template                                              *)
SscToSmOK(src, tmpl, ctmpl, beh, res) ==
  res.st = "ok" =>
    /\ \A i \in DOMAIN src.items :
         LET k == src.items[i].k  d == Decide(SMSimfileKind(k), k, src.items[i].v, beh) IN
         /\ d # "raise"
         /\ d = "copy" => Has(res.items, k) /\ Get(res.items, k) = Get(src.items, k)
         /\ d = "skip" => (Has(res.items, k) <=> Has(tmpl.items, k)) /\ (Has(tmpl.items, k) => Get(res.items, k) = Get(tmpl.items, k))
    /\ \A i \in DOMAIN res.items : Has(src.items, res.items[i].k) \/ Has(tmpl.items, res.items[i].k)
    /\ \A i \in DOMAIN tmpl.items : Has(res.items, tmpl.items[i].k) /\ (~Has(src.items, tmpl.items[i].k) => Get(res.items, tmpl.items[i].k) = tmpl.items[i].v)
    /\ Len(res.charts) = Len(tmpl.charts) + Len(src.charts)
    /\ \A j \in DOMAIN tmpl.charts : res.charts[j] = tmpl.charts[j]
    /\ \A j \in DOMAIN src.charts : \A f \in SMFieldSet :
         Has(res.charts[Len(tmpl.charts) + j], f)
         /\ (Has(src.charts[j], f) => Get(res.charts[Len(tmpl.charts) + j], f) = Get(src.charts[j], f))
         /\ (~Has(src.charts[j], f) => Get(res.charts[Len(tmpl.charts) + j], f) = Get(ctmpl, f))

-----------------------------------------------------------------------------
(* sm_to_ssc: src.charts are SM charts given as ordered maps over the six fields *)
SmToSsc(src, tmpl, ctmpl) ==
  IF HasNegative(AttrSM(src.items, "BPMS", "BPMS")) \/ HasNegative(AttrSM(src.items, "STOPS", "FREEZES"))
  THEN Fail("NotImplementedError", "")
  ELSE [st |-> "ok", key |-> "",
        items |-> ApplyPlan(tmpl.items, [i \in DOMAIN src.items |-> [k |-> src.items[i].k, v |-> src.items[i].v, d |-> "copy"]], 1),
        charts |-> tmpl.charts \o [j \in DOMAIN src.charts |->
                     ApplyPlan(ctmpl, [i \in DOMAIN src.charts[j] |-> [k |-> src.charts[j][i].k, v |-> src.charts[j][i].v, d |-> "copy"]], 1)]]

(* a WARPS value made of blanks only is not claimed either way *)
BlankOnlyWarps(src) == Has(src.items, "WARPS") /\ ~IsNone(Get(src.items, "WARPS")) /\ Get(src.items, "WARPS") # <<>> /\ AllSpace(Get(src.items, "WARPS"))
(* key-only SSC-only properties (value None) are outside the stated domain *)
NoneValued(src) == (\E i \in DOMAIN src.items : IsNone(src.items[i].v)) \/ (\E j \in DOMAIN src.charts : \E i \in DOMAIN src.charts[j] : IsNone(src.charts[j][i].v))

(* known finding: the SM-only alias FREEZES is copied verbatim and the SSC reader does not see it *)
FreezesFinding(src) == Has(src.items, "FREEZES") /\ ~Has(src.items, "STOPS")
=============================================================================
