"""C10 — ungrouping grouped notes restores the original note stream.

(M)   MC_Ungroup, one state per stream of a small grid (some hold heads keysounded): for every type set,
      same-beat mode, join on/off, 3x3 group policies and 3 ungroup policies, the specification's
      ungroup machine (pending-tail set, pop-while-earlier) applied to the specification's groups gives
      the included notes minus the dropped orphans - exactly, or as the same multiset with
      non-decreasing beats for per-type grouping; hand-built groups with a note inside a joined hold
      raise / pass / drop it.
(C2S) the real group_notes output of every grid stream (rotating through the option space; complete in
      thorough), of random ill-formed streams with keysounded heads and of corpus charts is ungrouped
      for real under all three policies; TLC recomputes the expected notes from the stream and options.
      Hand-built grouped sequences (a note inside a joined hold) are ungrouped for real and compared
      with the specification's machine.
"""
import json
import random

from harness import tlc, core
from . import grouping_common as gc
from . import c09

INVS = ["InvRoundTrip", "InvHandBuilt"]
GRID_OPTIONS = gc.all_group_options([49, 50, 51, 77])
KS_KINDS = gc.KINDS5


def mc_cfg(rows, cols, kinds, typesets, hand):
    return ("SPECIFICATION Spec\nCONSTANTS\n NRows = %d\n NCols = %d\n KindSet = {%s}\n TypeSets = {%s}\n HandBuilt = %s\n%s" % (
        rows, cols, ",".join(map(str, kinds)), ",".join(map(str, typesets)), "TRUE" if hand else "FALSE",
        "".join("INVARIANT %s\n" % i for i in INVS)))


def grid_job(job):
    idx, notes_d, per_stream, seed = job
    # some hold heads carry a keysound index (tails never do: the property's domain)
    nd = [dict(d, k=(5 if d["t"] == 50 and (i + idx) % 2 == 0 else -1)) for i, d in enumerate(notes_d)]
    notes = [gc.note_of(d) for d in nd]
    calls = []
    n = len(GRID_OPTIONS)
    for k in range(per_stream):
        ts, mode, join, oh, ot = GRID_OPTIONS[(idx * per_stream + k) % n]
        calls.append(gc.call_group(notes, ts, mode, join, oh, ot, True, chk=False))
    return {"id": idx, "notes": nd, "calls": calls}


def hand_built(rng, rid):
    """a joined hold with notes placed inside / outside it, as grouped sequences"""
    from simfile.notes.group import NoteWithTail, ungroup_notes
    from simfile.notes import Note, NoteType
    from simfile.timing import Beat
    pol, _ = gc.enums()
    cols = rng.randint(1, 3)
    length = rng.randint(2, 6)
    hc = rng.randrange(cols)
    groups = [[NoteWithTail(beat=Beat(0), column=hc, note_type=rng.choice([NoteType.HOLD_HEAD, NoteType.ROLL_HEAD]),
                            tail_beat=Beat(length), player=0, keysound_index=rng.choice([None, 0, 7]))]]
    for b2 in range(0, 2 * length + 4):
        row = []
        for c in range(cols):
            if rng.random() < 0.25 and not (b2 == 0 and c == hc):
                if rng.random() < 0.2:
                    row.append(NoteWithTail(beat=Beat(b2, 2), column=c, note_type=NoteType.HOLD_HEAD, tail_beat=Beat(b2, 2) + rng.randint(1, 3)))
                else:
                    row.append(Note(beat=Beat(b2, 2), column=c, note_type=rng.choice([NoteType.TAP, NoteType.MINE, NoteType.LIFT])))
        if row:
            if b2 == 0:
                groups[0] += row
                groups[0].sort(key=lambda x: x.column)
            else:
                groups.append(row)
    calls = []
    for p in gc.POL:
        c = {"f": "ungroup", "groups": [[gc.pitem(x) for x in g] for g in groups], "pol": p, "st": "ok", "notes": []}
        try:
            c["notes"] = [gc.pitem_plain(x) for x in ungroup_notes(groups, orphaned_notes=pol[p])]
        except Exception as e:  # noqa
            c["st"] = type(e).__name__
        calls.append(c)
    return {"id": rid, "notes": [], "calls": calls}


def report(ctx, recs, verdict, label):
    for rec in recs:
        v = verdict[rec["id"]]
        n = sum(len(c.get("un", [0])) for c in rec["calls"])
        ctx.traces += n
        ctx.evaluations += n
        if v["clause"].startswith("domain:"):
            continue
        if rec["notes"] == [] or any(x["t"] in (50, 51, 52) for x in rec["notes"]):
            ctx.nontrivial_add((label, json.dumps(rec["notes"]) + json.dumps(rec["calls"][0].get("groups", []))[:200]))
        if v["clause"]:
            c = rec["calls"][v["at"] - 1]
            if c["f"] == "group" and not v["clause"].startswith("ungroup"):
                # group_notes itself misbehaved: that is C09's business; C10 cannot judge this call
                ctx.notes["calls_not_judged_because_group_notes_differs"] = ctx.notes.get("calls_not_judged_because_group_notes_differs", 0) + 1
                ctx.violation("C10:group-output-unusable:" + v["clause"],
                              "group_notes output differs from the documented one (%s), so the round trip cannot hold: options %s on [%s]" % (
                                  v["clause"], {k: c[k] for k in ("types", "mode", "join", "oh", "ot")}, gc.show(rec["notes"])),
                              {"mode": "call", "notes": rec["notes"], "call": {k: c[k] for k in ("f", "types", "mode", "join", "oh", "ot")}})
                continue
            if c["f"] == "group":
                opts = {k: c[k] for k in ("f", "types", "mode", "join", "oh", "ot")}
                ctx.violation("C10:" + v["clause"],
                              "ungroup(group(stream)) rejected (%s): options %s on [%s]: ungrouped %s" % (
                                  v["clause"], opts, gc.show(rec["notes"]), json.dumps(c["un"])[:700]),
                              {"mode": "call", "notes": rec["notes"], "call": opts})
            else:
                ctx.violation("C10:" + v["clause"],
                              "ungroup of hand-built groups rejected (%s): policy %s, groups %s -> %s %s" % (
                                  v["clause"], c["pol"], json.dumps(c["groups"])[:500], c["st"], json.dumps(c["notes"])[:400]),
                              {"mode": "hand", "groups": c["groups"], "pol": c["pol"]})


def run(ctx):
    quick = ctx.quick
    cfgs = [(3, 2, [0, 49, 50, 51], [1, 3], True)] if quick else [(3, 2, gc.KINDS5, [1, 2, 3], True), (4, 2, [0, 50, 51], [1], True),
                                                                   (2, 3, [0, 49, 50, 51], [1, 3], False), (3, 2, [0, 49, 52, 51], [1, 4], True)]
    for rows, cols, kinds, tss, hand in cfgs:
        res = tlc.run(module="MC_Ungroup", cfg=mc_cfg(rows, cols, kinds, tss, hand), dirs=gc.DIRS, workers=16, timeout=3000, heap="6g")
        if res.invariant_violated:
            ctx.violation("C10:model:" + res.invariant_violated,
                          "the specification's ungroup machine does not restore the stream (%s):\n%s" % (res.invariant_violated, (res.error_text or "")[:2000]),
                          {"mode": "model"})
            continue
        tlc.require_ok(res, "MC_Ungroup")
        ctx.add_tlc("MC_Ungroup %dx%d" % (rows, cols), res)
    streams = list(gc.grid_streams(3, 2, KS_KINDS))
    # a second grid whose only interrupting note is an auto-keysound (K), the rarest thing found inside a hold
    streams += [st for st in gc.grid_streams(3, 2, [0, 50, 51, 75]) if any(x["t"] == 75 for x in st)]
    if quick:
        jobs = [(i, s, 6, ctx.seed) for i, s in enumerate(streams)]
    else:
        big = list(gc.grid_streams(4, 2, KS_KINDS))
        jobs = [(i, s, 4, ctx.seed) for i, s in enumerate(big)]
        jobs += [(len(big) + i, s, 45, ctx.seed) for i, s in enumerate(streams)]
    # in batches: the thorough grid is millions of calls; records are validated and dropped batch by batch
    nrec = 0
    for lo in range(0, len(jobs), 40000):
        recs = core.pmap(grid_job, jobs[lo:lo + 40000], chunk=200)
        verdict = gc.validate(ctx, recs)
        report(ctx, recs, verdict, "grid")
        nrec += len(recs)
    ctx.notes["c2s_grid_streams"] = nrec
    rng = random.Random(ctx.seed * 7 + 2)
    recs = []
    nrand = 500 if quick else 12000
    for i in range(nrand):
        nd = gc.gen_stream(rng, 50 if quick else 100)
        notes = [gc.note_of(d) for d in nd]
        calls = []
        for _ in range(3):
            ts = [t for t in gc.ALLT if rng.random() < 0.75] if rng.random() < 0.6 else list(gc.ALLT)
            calls.append(gc.call_group(notes, ts, rng.choice(gc.MODES), rng.random() < 0.8, rng.choice(gc.POL), rng.choice(gc.POL), True, chk=False))
        recs.append({"id": i, "notes": nd, "calls": calls})
    # many holds open at once, released in every order: one head per column on beats 0..n-1, the tails on a
    # permutation of the following beats (5-8 columns)
    import itertools
    perms = []
    for ncols in (5, 6, 7, 8):
        allp = list(itertools.permutations(range(ncols))) if ncols <= 6 else [tuple(rng.sample(range(ncols), ncols)) for _ in range(400)]
        perms += [(ncols, pm) for pm in (rng.sample(allp, 40 if quick else min(len(allp), 700)))]
    for ncols, pm in perms:
        nd = [{"n": i, "d": 1, "c": i, "t": rng.choice([50, 52]), "k": rng.choice([-1, -1, 4])} for i in range(ncols)]
        nd += [{"n": ncols + pm[i], "d": 1, "c": i, "t": 51, "k": -1} for i in range(ncols)]
        nd.sort(key=lambda x: (x["n"], x["c"]))
        notes = [gc.note_of(d) for d in nd]
        calls = [gc.call_group(notes, gc.ALLT, rng.choice(gc.MODES), True, rng.choice(gc.POL), rng.choice(gc.POL), True, chk=False)]
        recs.append({"id": len(recs) + 500000, "notes": nd, "calls": calls})
    cs = gc.corpus_streams(150)
    rng.shuffle(cs)
    for j, (label, nd) in enumerate(cs[: (30 if quick else 100000)]):
        notes = [gc.note_of(d) for d in nd]
        calls = [gc.call_group(notes, gc.ALLT, rng.choice(gc.MODES), True, rng.choice(["keep", "drop"]), rng.choice(["keep", "drop"]), True, chk=False),
                 gc.call_group(notes, gc.ALLT, rng.choice(gc.MODES), False, "raise", "raise", True, chk=False)]
        recs.append({"id": nrand + j, "notes": nd, "calls": calls})
    base = nrand + len(cs) + 10
    nhand = 300 if quick else 6000
    for h in range(nhand):
        recs.append(hand_built(rng, base + h))
    verdict = gc.validate(ctx, recs)
    report(ctx, recs, verdict, "random")
    ctx.notes["c2s_hand_built_sequences"] = nhand
    r = recs[2]
    ctx.sample({"c2s": {"stream": gc.show(r["notes"]), "options": {k: r["calls"][0][k] for k in ("types", "mode", "join", "oh", "ot")},
                        "ungrouped_keep": r["calls"][0]["un"][1] if r["calls"][0]["un"] else None}})
    ctx.exhaustive = True
    ctx.rule = ("one evaluation per ungroup_notes call (3 policies per group_notes output; 3 per hand-built sequence); "
                "non-trivial = stream contains a head or tail, or a hand-built sequence; distinct = distinct (stream, first output)")
    ctx.assumptions += [
        "single-player position-sorted streams; tails carry no keysound index (heads may)",
        "for per-type grouping the claim is 'same notes, beats non-decreasing' (as the property says), not a fixed order",
        "a call whose group_notes output already differs from the documented one is reported as group-output-unusable (C09 decides group_notes)",
    ]


def replay(rec):
    case = rec["case"]
    print(rec.get("what"))
    if case.get("mode") == "call":
        notes = [gc.note_of(d) for d in case["notes"]]
        c = case["call"]
        print(json.dumps(gc.call_group(notes, c["types"], c["mode"], c["join"], c["oh"], c["ot"], True))[:3000])
    return 1
