#!/venv/bin/python
"""Binding demonstration for Trace_System: recorded sessions are accepted; the same sessions with ONE logged field
corrupted (an argument, a read result, the saved text, a state after) are rejected at exactly the corrupted event.
Exit 0 when both hold."""
import collections
import copy
import json
import os
import sys

sys.path.insert(0, os.path.dirname(os.path.dirname(os.path.abspath(__file__))))
from harness import core, tlc      # noqa
core.use_repo()
from checks import system_common as sc      # noqa


def main():
    sessions = [sc.session(i, 5 * 8191 + i, i % 3 == 0) for i in range(40)]
    sessions += [sc.session(i, 5 * 8191 + i, False, True) for i in range(40, 70)]                  # timing-minded sessions
    sessions += [sc.session(i, 5 * 8191 + i, False, False, True) for i in range(70, 100)]          # sessions with named files
    bad = []
    for s in sessions:
        s2 = copy.deepcopy(s)
        s2["id"] = s["id"] + 1000
        special = [i for i, e in enumerate(s2["events"]) if (e["op"] == "timenotes" and e["res"]) or e["op"] == "openfile"
                   or (e["op"] == "mutatefile" and e["body"] == "normal" and e["res"] == "ok")]
        cands = special or [i for i, e in enumerate(s2["events"]) if e["op"] in ("setkey", "setattr", "setchartitem", "setchartfield", "getattr", "reopen", "tossc", "tosm")]
        if not cands:
            continue
        i = cands[len(cands) // 2]
        e = s2["events"][i]
        if e["op"] == "timenotes":
            e["res"][len(e["res"]) // 2]["tm"] += 1                       # one note's time off by 1/286720 s
        elif e["op"] == "openfile":
            e["res"] = "ValueError" if e["res"] == "ok" else "ok"
        elif e["op"] == "mutatefile":
            extra = [35, 90, 90, 58, 49, 59, 10]                          # "#ZZ:1;\n": a property the edited simfile does not have
            target = e["out"] or e["name"]
            e["texts"]["out"] = e["texts"]["out"] + extra
            for f in e["fsafter"]:
                if f["n"] == target:
                    f["t"] = f["t"] + extra
        elif e["op"] in ("setkey", "setattr", "setchartitem", "setchartfield"):
            e["v"] = e["v"] + [33]
        elif e["op"] == "getattr":
            e["res"] = (e["res"] if e["res"] != [-1] else []) + [33]
        elif e["op"] == "reopen":
            e["after"]["items"] = e["after"]["items"] + [{"k": [90], "v": [90]}]
        else:
            e["after"]["items"] = e["after"]["items"][1:]
        bad.append((s2, i + 1))
    text = "".join(json.dumps(s) + "\n" for s in sessions + [b[0] for b in bad])
    res = tlc.run(module="Trace_System", cfg="SPECIFICATION TraceSpec\nINVARIANT InvType\n", dirs=sc.DIRS,
                  files={"trace.ndjson": text}, env={"TRACE_FILE": "trace.ndjson"}, timeout=1800, heap="8g")
    tlc.require_ok(res, "Trace_System")
    v = {x["id"]: x for x in res.printed}
    good = collections.Counter(v[s["id"]]["verdict"] for s in sessions)
    # (a session that leaves the serializer's domain is skipped from that event on: only twins of accepted sessions count)
    bad = [(s2, at) for s2, at in bad if v[s2["id"] - 1000]["verdict"] == "ACCEPT"]
    hit = sum(1 for s2, at in bad if v[s2["id"]]["verdict"] == "REJECT" and v[s2["id"]]["at"] == at)
    print("recorded sessions:", dict(good), "| corrupted sessions rejected at the corrupted event: %d / %d" % (hit, len(bad)))
    kinds = collections.Counter(s2["events"][at - 1]["op"] for s2, at in bad)
    print("corrupted event kinds:", dict(kinds))
    ok = good.get("REJECT", 0) == 0 and hit == len(bad) and len(bad) > 20
    return 0 if ok else 1


if __name__ == "__main__":
    sys.exit(main())
