"""C09 — grouping and counting notes follow the documented rules for every stream.

(M)   MC_Grouping: the operational join machine (held columns / buffer / released items, one action per
      note, then clean-up) is run by TLC on EVERY stream of a small grid under all nine orphan policies;
      at the end its verdict and output equal the declarative reading, and buffer invariants hold at
      every step.  MC_Ungroup (one state per stream): same-beat modes and the counting functions follow
      from the grouped items.
(S2C) every terminal state TLC reached (stream, policies, released items or error) is replayed through
      group_notes(join_heads_to_tails=True).
(C2S) all streams of the grid x the whole option space (rotated through per stream in quick, complete in
      thorough), random ill-formed streams over 1..6 columns and nine note types with random options,
      and corpus charts: every call's outcome (groups, exception + the note it names, counts) is
      recomputed by TLC from the recorded stream and options (Trace_Grouping).
"""
import json
import random

from harness import tlc, core
from . import grouping_common as gc

MINVS = ["InvRefines", "InvBuffer", "InvOrder", "InvFold"]


def mc_cfg(rows, cols, kinds):
    return ("SPECIFICATION Spec\nCONSTANTS\n NRows = %d\n NCols = %d\n KindSet = {%s}\n DoEmit = TRUE\n%sINVARIANT Emit\n" % (
        rows, cols, ",".join(map(str, kinds)), "".join("INVARIANT %s\n" % i for i in MINVS)))


def mc2_cfg(rows, cols, kinds, typesets, invs):
    return ("SPECIFICATION Spec\nCONSTANTS\n NRows = %d\n NCols = %d\n KindSet = {%s}\n TypeSets = {%s}\n HandBuilt = FALSE\n%s" % (
        rows, cols, ",".join(map(str, kinds)), ",".join(map(str, typesets)), "".join("INVARIANT %s\n" % i for i in invs)))


def s2c_job(rec):
    notes = [gc.note_of(d) for d in rec["notes"]]
    c = gc.call_group(notes, gc.ALLT, "separate", True, rec["oh"], rec["ot"], False)
    exp_st = "OrphanedNoteException" if rec["err"] else "ok"
    if c["st"] != exp_st:
        return ("outcome:" + c["st"], "expected %s, got %s" % (exp_st, c["st"]))
    if c["st"] == "ok":
        got = [g[0] for g in c["groups"]] if all(len(g) == 1 for g in c["groups"]) else None
        if got != rec["items"]:
            return ("grouped-items", "expected items %s, got groups %s" % (rec["items"], c["groups"]))
    return None


def rotating_calls(notes_d, idx, options, per_stream, rng):
    """a slice of the option space for this stream (every option is used by many streams)"""
    notes = [gc.note_of(d) for d in notes_d]
    calls = []
    n = len(options)
    for k in range(per_stream):
        ts, mode, join, oh, ot = options[(idx * per_stream + k) % n]
        calls.append(gc.call_group(notes, ts, mode, join, oh, ot, False))
    return notes, calls


def count_calls(notes, rng, universe, k=3):
    calls = []
    for _ in range(k):
        r = rng.random()
        if r < 0.15:
            calls.append(gc.call_count(notes, "mines"))
        elif r < 0.45:
            calls.append(gc.call_count(notes, rng.choice(["holds", "rolls"]), oh=rng.choice(gc.POL), ot=rng.choice(gc.POL)))
        elif r < 0.6:
            calls.append(gc.call_count(notes, rng.choice(["steps-default", "jumps-default", "hands-default"])))
        else:
            ts = [t for t in universe if rng.random() < 0.6]
            which = rng.choice(["steps", "jumps", "hands"])
            calls.append(gc.call_count(notes, which, types=ts, mode=rng.choice(gc.MODES), minimum=rng.randint(1, 4)))
    return calls


def grid_job(job):
    idx, notes_d, per_stream, seed = job
    rng = random.Random(seed * 1000003 + idx)
    notes, calls = rotating_calls(notes_d, idx, GRID_OPTIONS, per_stream, rng)
    calls += count_calls(notes, rng, [49, 50, 51, 77], 3)
    return {"id": idx, "notes": notes_d, "calls": calls}


GRID_OPTIONS = gc.all_group_options([49, 50, 51, 77])


def report(ctx, recs, verdict, label):
    for rec in recs:
        v = verdict[rec["id"]]
        n = len(rec["calls"])
        ctx.traces += n
        ctx.evaluations += n
        if v["clause"].startswith("domain:"):
            ctx.notes["excluded_by_spec_domain_predicate"] = ctx.notes.get("excluded_by_spec_domain_predicate", 0) + 1
            continue
        if any(x["t"] in (50, 51, 52) for x in rec["notes"]):
            ctx.nontrivial_add((label, json.dumps(rec["notes"])))
        if v["clause"]:
            c = rec["calls"][v["at"] - 1]
            opts = {k: c[k] for k in c if k in ("f", "which", "types", "mode", "join", "oh", "ot", "minimum")}
            ctx.violation("C09:" + v["clause"],
                          "%s call rejected (%s): options %s on stream [%s]: got %s" % (
                              c["f"], v["clause"], opts, gc.show(rec["notes"]),
                              json.dumps({k: c[k] for k in ("st", "groups", "count", "named") if k in c})[:600]),
                          {"mode": "call", "notes": rec["notes"], "call": opts})


def run(ctx):
    quick = ctx.quick
    # ---- M + S2C: operational machine ------------------------------------------------------------
    grids = [(3, 2, gc.KINDS5)] if quick else [(3, 2, gc.KINDS5), (4, 2, [0, 50, 51]), (2, 3, gc.KINDS5), (3, 2, [0, 50, 51, 52, 77])]
    for rows, cols, kinds in grids:
        res = tlc.run(module="MC_Grouping", cfg=mc_cfg(rows, cols, kinds), dirs=gc.DIRS, workers=16, timeout=3000, heap="8g")
        if res.invariant_violated:
            ctx.violation("C09:model:" + res.invariant_violated,
                          "the operational join machine does not refine the declarative reading (%s):\n%s" % (
                              res.invariant_violated, (res.error_text or "")[:2000]), {"mode": "model"})
            continue
        tlc.require_ok(res, "MC_Grouping")
        ctx.add_tlc("MC_Grouping %dx%d" % (rows, cols), res)
        recs = res.printed
        if not recs:
            raise core.MachineryError("vacuity: MC_Grouping emitted nothing")
        for rec, bad in zip(recs, core.pmap(s2c_job, recs, chunk=500)):
            ctx.traces += 1
            ctx.evaluations += 1
            if bad:
                ctx.violation("C09:s2c:" + bad[0],
                              "group_notes(join, orphaned_head=%s, orphaned_tail=%s) on [%s]: %s" % (
                                  rec["oh"], rec["ot"], gc.show(rec["notes"]), bad[1][:600]),
                              {"mode": "call", "notes": rec["notes"],
                               "call": {"f": "group", "types": gc.ALLT, "mode": "separate", "join": True, "oh": rec["oh"], "ot": rec["ot"]}})
        ctx.notes["s2c_terminal_states_replayed"] = ctx.notes.get("s2c_terminal_states_replayed", 0) + len(recs)
        ctx.sample({"s2c": {"stream": gc.show(recs[len(recs) // 2]["notes"]), "oh": recs[len(recs) // 2]["oh"],
                            "ot": recs[len(recs) // 2]["ot"], "spec_items": recs[len(recs) // 2]["items"], "spec_err": recs[len(recs) // 2]["err"]}})
    # ---- M: modes and counts -----------------------------------------------------------------------
    m2 = [(3, 2, [0, 49, 50, 51], [1, 5])] if quick else [(3, 2, gc.KINDS5, [1, 2, 5]), (2, 3, [0, 49, 50, 77], [1, 5])]
    for rows, cols, kinds, tss in m2:
        res = tlc.run(module="MC_Ungroup", cfg=mc2_cfg(rows, cols, kinds, tss, ["InvModes", "InvCounts"]), dirs=gc.DIRS,
                      workers=16, timeout=3000, heap="6g")
        if res.invariant_violated:
            ctx.violation("C09:model:" + res.invariant_violated, "the specification's mode/count rules are inconsistent:\n%s" % (res.error_text or "")[:2000],
                          {"mode": "model"})
            continue
        tlc.require_ok(res, "MC_Ungroup")
        ctx.add_tlc("MC_Ungroup(modes,counts) %dx%d" % (rows, cols), res)
    # ---- C2S: grid x option space ----------------------------------------------------------------
    streams = list(gc.grid_streams(3, 2, gc.KINDS5)) if quick else list(gc.grid_streams(4, 2, gc.KINDS5))
    per = 10 if quick else 8
    if not quick:
        rng0 = random.Random(ctx.seed)
        # the 2x4 grid completely, each stream with a rotating slice; plus the 2x3 grid with the whole option space
        small = list(gc.grid_streams(3, 2, gc.KINDS5))
        jobs = [(i, s, per, ctx.seed) for i, s in enumerate(streams)]
        jobs += [(len(streams) + i, s, 90, ctx.seed) for i, s in enumerate(small)]      # a third of the option space per stream, rotating
    else:
        jobs = [(i, s, per, ctx.seed) for i, s in enumerate(streams)]
    # in batches: the thorough grid is millions of calls; records are validated and dropped batch by batch
    nrec = 0
    for lo in range(0, len(jobs), 40000):
        recs = core.pmap(grid_job, jobs[lo:lo + 40000], chunk=200)
        verdict = gc.validate(ctx, recs)
        report(ctx, recs, verdict, "grid")
        nrec += len(recs)
    ctx.notes["c2s_grid_streams"] = nrec
    # ---- C2S: random + corpus ------------------------------------------------------------------------
    rng = random.Random(ctx.seed * 3 + 1)
    recs = []
    nrand = 600 if quick else 15000
    for i in range(nrand):
        nd = gc.gen_stream(rng, 60 if quick else 120, players=(rng.random() < 0.2))    # one in five: a merged routine stream (round 10, C09-P)
        notes = [gc.note_of(d) for d in nd]
        calls = []
        universe = sorted({x["t"] for x in nd}) or [49]
        for _ in range(4):
            ts = [t for t in gc.ALLT if rng.random() < 0.7] if rng.random() < 0.7 else list(gc.ALLT)
            calls.append(gc.call_group(notes, ts, rng.choice(gc.MODES), rng.random() < 0.75, rng.choice(gc.POL), rng.choice(gc.POL), False))
        calls += count_calls(notes, rng, gc.ALLT, 3)
        recs.append({"id": i, "notes": nd, "calls": calls})
    cs = gc.corpus_streams(150)
    rng.shuffle(cs)
    for j, (label, nd) in enumerate(cs[: (40 if quick else 100000)]):
        notes = [gc.note_of(d) for d in nd]
        calls = [gc.call_group(notes, gc.ALLT, rng.choice(gc.MODES), True, rng.choice(gc.POL), rng.choice(gc.POL), False),
                 gc.call_group(notes, [49, 50, 52, 76], "all", False, "raise", "raise", False)]
        calls += count_calls(notes, rng, gc.ALLT, 3)
        recs.append({"id": nrand + j, "notes": nd, "calls": calls})
    verdict = gc.validate(ctx, recs)
    report(ctx, recs, verdict, "random")
    r = recs[3]
    ctx.sample({"c2s": {"stream": gc.show(r["notes"]), "call": {k: r["calls"][0][k] for k in ("types", "mode", "join", "oh", "ot", "st")},
                        "groups": r["calls"][0]["groups"][:4]}})
    # whole sessions against System.tla: this check judges the rejections at the "countnotes" event
    from . import system_common as sysc
    sessions, sverdict = sysc.run_sessions(ctx, 150 if ctx.quick else 3000, ctx.seed + 9)
    sysc.judge(ctx, "C09", sessions, sverdict, {"countnotes"}, "counting a chart's notes inside a session")
    sysc.mc_for(ctx, "C09")          # MC_System: bounded model of whole sessions, every transition replayed on the library
    ctx.notes["sessions_with_a_countnotes_event"] = sum(1 for s_ in sessions if any(e["op"] == "countnotes" for e in s_["events"]))
    ctx.exhaustive = True
    ctx.rule = ("M: every stream of the grid x 9 policies through the operational machine (TLC BFS); S2C: every terminal state; "
                "C2S: one evaluation per recorded call (group_notes / count_*); non-trivial = stream contains a head or a tail; "
                "distinct = distinct stream")
    ctx.assumptions += [
        "single-player, position-sorted streams (TLC checks sortedness and excludes others)",
        "which orphan an OrphanedNoteException names is not fixed: it must be one of the orphans of a raising kind",
        "quick rotates through the option space (each stream gets a slice, every option is used by many streams); thorough applies the whole space to the 2x3 grid",
    ]


def replay(rec):
    case = rec["case"]
    print(rec.get("what"))
    if case.get("mode") == "call":
        notes = [gc.note_of(d) for d in case["notes"]]
        c = case["call"]
        if c.get("f") == "group":
            print(json.dumps(gc.call_group(notes, c["types"], c["mode"], c["join"], c["oh"], c["ot"], True))[:3000])
        else:
            print(json.dumps(gc.call_count(notes, c["which"], types=c.get("types"), mode=c.get("mode", "all"),
                                           minimum=c.get("minimum", 1), oh=c.get("oh", "raise"), ot=c.get("ot", "raise"))))
    return 1
