"""Batch trace validation: ndjson records -> TLC (Trace_<X> module) -> {id: verdict record}."""
import json

from . import core, tlc


def validate(ctx, module, dirs, recs, parallel=16, timeout=3000, heap="2g", name=None):
    """Every record must carry a unique "id".  The Trace module prints one JSON object per record
    with at least {id, clause}.  Returns {id: printed object}."""
    if not recs:
        return {}
    name = name or module
    parts = core.chunks(recs, parallel)
    jobs = []
    for part in parts:
        text = "".join(json.dumps(r, ensure_ascii=True) + "\n" for r in part)
        jobs.append(dict(module=module, cfg="SPECIFICATION Spec\n", dirs=dirs,
                         files={"trace.ndjson": text}, env={"TRACE_FILE": "trace.ndjson"},
                         timeout=timeout, heap=heap))
    results = tlc.run_many(jobs, parallel=parallel)
    verdict = {}
    for res in results:
        tlc.require_ok(res, name)
        ctx.states += res.distinct
        ctx.transitions += res.generated
        for v in res.printed:
            verdict[v["id"]] = v
    ctx.tlc_runs.append({"name": "%s x%d" % (name, len(jobs)),
                         "distinct": sum(r.distinct for r in results),
                         "generated": sum(r.generated for r in results),
                         "wall_s": round(max(r.wall for r in results), 1)})
    if len(verdict) != len(recs):
        raise core.MachineryError("%s: %d verdicts for %d records" % (name, len(verdict), len(recs)))
    return verdict
