"""Shared by C16 (sm_to_ssc) and C17 (ssc_to_sm): object builders, projections, one recorded call."""
import copy
import json
import os
import random

from harness import core, trace
from harness.core import cps, uncps

DIRS = ["convert"]
SMF = ["STEPSTYPE", "DESCRIPTION", "DIFFICULTY", "METER", "RADARVALUES", "NOTES"]
KINDS = ["version", "metadata", "filepath", "gameplay", "timing"]
BEHS = ["copy", "ignore", "unlessdefault", "error"]


def pitems(d):
    return [{"k": k, "v": cps(v) if (v is None or isinstance(v, str)) else cps("<non-str>")} for k, v in d.items()]


def proj_sf(sf):
    return {"items": pitems(sf), "charts": [pitems(c) for c in sf.charts]}


def build_ssc(p):
    from simfile.ssc import SSCSimfile, SSCChart
    sf = SSCSimfile(string="")
    for e in p["items"]:
        sf[e["k"]] = uncps(e["v"])
    for ch in p["charts"]:
        c = SSCChart()
        for e in ch:
            c[e["k"]] = uncps(e["v"])
        sf.charts.append(c)
    return sf


def build_smchart(items):
    from simfile.sm import SMChart
    d = {e["k"]: uncps(e["v"]) for e in items}
    return SMChart.from_msd([d.get(f, "") or "" for f in SMF])


def build_sm(p):
    from simfile.sm import SMSimfile
    sf = SMSimfile(string="")
    for e in p["items"]:
        sf[e["k"]] = uncps(e["v"])
    for ch in p["charts"]:
        sf.charts.append(build_smchart(ch))
    return sf


def build_sscchart(items):
    from simfile.ssc import SSCChart
    c = SSCChart()
    for e in items:
        c[e["k"]] = uncps(e["v"])
    return c


def beh_enum(beh):
    from simfile.convert import PropertyType, InvalidPropertyBehavior
    pt = {"version": PropertyType.SSC_VERSION, "metadata": PropertyType.METADATA, "filepath": PropertyType.FILE_PATH,
          "gameplay": PropertyType.GAMEPLAY_EVENT, "timing": PropertyType.TIMING_DATA}
    bh = {"copy": InvalidPropertyBehavior.COPY_ANYWAY, "ignore": InvalidPropertyBehavior.IGNORE,
          "unlessdefault": InvalidPropertyBehavior.ERROR_UNLESS_DEFAULT, "error": InvalidPropertyBehavior.ERROR}
    return {pt[k]: bh[b] for k, b in beh}


def timing_proj(sf, chart=None):
    from simfile.timing import TimingData
    td = TimingData(sf, chart) if chart is not None else TimingData(sf)
    return json.dumps([[(str(e.beat), str(e.value)) for e in lst] for lst in (td.bpms, td.stops, td.delays, td.warps)] + [str(td.offset)])


def notes_proj(chart):
    from simfile.notes import NoteData
    return [tuple(n) for n in NoteData(chart)] if chart.notes and chart.notes.strip() else []


def record_call(rid, direction, src, tmpl, ctmpl, beh, with_back=False):
    """src / tmpl / ctmpl are REAL objects (tmpl, ctmpl may be None = library's blank)."""
    import simfile
    from simfile.convert import sm_to_ssc, ssc_to_sm, InvalidPropertyException
    from simfile.sm import SMSimfile, SMChart
    from simfile.ssc import SSCSimfile, SSCChart
    out_sf_cls, out_ch_cls = (SMSimfile, SMChart) if direction == "ssc2sm" else (SSCSimfile, SSCChart)
    eff_tmpl = tmpl if tmpl is not None else out_sf_cls.blank()
    eff_ctmpl = ctmpl if ctmpl is not None else out_ch_cls.blank()
    rec = {"id": rid, "dir": direction, "src": proj_sf(src), "tmpl": proj_sf(eff_tmpl), "ctmpl": pitems(eff_ctmpl),
           "beh": [{"kind": k, "b": b} for k, b in beh], "st": "ok", "key": "", "res": {"items": [], "charts": []},
           "after": {}, "shared": False, "timing": True, "notes": True, "reload": True,
           "back": {"ran": False, "st": "", "same": True}}
    kw = {}
    if tmpl is not None:
        kw["simfile_template"] = tmpl
    if ctmpl is not None:
        kw["chart_template"] = ctmpl
    res = None
    try:
        if direction == "ssc2sm":
            if beh or random.random() < 0.5:
                kw["invalid_property_behaviors"] = beh_enum(beh)
            res = ssc_to_sm(src, **kw)
        else:
            res = sm_to_ssc(src, **kw)
    except InvalidPropertyException as e:
        rec["st"] = "InvalidPropertyException"
        msg = str(e)
        rec["key"] = msg.split("'")[1] if "'" in msg else msg
    except Exception as e:  # noqa
        rec["st"] = type(e).__name__
    rec["after"] = {"src": proj_sf(src), "tmpl": proj_sf(eff_tmpl) if tmpl is not None else rec["tmpl"],
                    "ctmpl": pitems(eff_ctmpl) if ctmpl is not None else rec["ctmpl"]}
    if res is None:
        return rec
    rec["res"] = proj_sf(res)
    if type(res) is not out_sf_cls:
        rec["st"] = "wrong-type:" + type(res).__name__
        return rec
    # ---- what the library's own readers see ------------------------------------------------------
    try:
        if direction == "sm2ssc":
            try:
                want = timing_proj(src)
            except Exception:  # noqa
                want = None                     # the source itself has no readable timing data: nothing to compare
            rec["timing"] = want is None or want == timing_proj(res)
            k0 = len(eff_tmpl.charts)
            rec["notes"] = all(notes_proj(a) == notes_proj(b) for a, b in zip(src.charts, res.charts[k0:])) and \
                len(res.charts) == k0 + len(src.charts)
    except Exception:  # noqa
        rec["timing"] = False
    try:
        text = str(res)
        # SSC: equal up to the documented normalisation (a chart's note data is written last)
        rec["reload"] = (direction == "sm2ssc" or type(res)(string=text) == res) and \
            json.dumps(proj_sf(type(res)(string=text))) == json.dumps(norm(proj_sf(res), direction))
    except Exception:  # noqa
        rec["reload"] = False
    if with_back and direction == "sm2ssc":
        rec["back"]["ran"] = True
        try:
            back = ssc_to_sm(res)
            rec["back"]["st"] = "ok"
            same = all(k in back and back[k] == v for k, v in src.items())
            same = same and len(back.charts) == len(src.charts) and all(
                all(b.get(f) == a.get(f) for f in SMF) for a, b in zip(src.charts, back.charts))
            rec["back"]["same"] = bool(same)
        except Exception as e:  # noqa
            rec["back"]["st"] = type(e).__name__
            rec["back"]["same"] = False
    # ---- value semantics ----------------------------------------------------------------------------
    shared = False
    objs_res = [res, res.charts] + list(res.charts)
    others = [src, src.charts] + list(src.charts)
    if tmpl is not None:
        others += [tmpl, tmpl.charts] + list(tmpl.charts)
    if ctmpl is not None:
        others.append(ctmpl)
    ids = {id(o) for o in others}
    for c in list(res.charts) + list(src.charts) + (list(tmpl.charts) if tmpl is not None else []) + ([ctmpl] if ctmpl is not None else []):
        ex = getattr(c, "extradata", None)
        if isinstance(ex, list):
            (objs_res if any(c is rc for rc in res.charts) else others).append(ex)
    ids = {id(o) for o in others}
    if any(id(o) in ids for o in objs_res):
        shared = True
    before = (json.dumps(proj_sf(src)), json.dumps(proj_sf(tmpl)) if tmpl is not None else "", json.dumps(pitems(ctmpl)) if ctmpl is not None else "")
    try:
        res["XEDIT"] = "edited"
        if res.charts:
            for c in res.charts:
                c.notes = "9999"
                c.meter = "99"
        res.charts.append(out_ch_cls.blank())
    except Exception:  # noqa
        pass
    after = (json.dumps(proj_sf(src)), json.dumps(proj_sf(tmpl)) if tmpl is not None else "", json.dumps(pitems(ctmpl)) if ctmpl is not None else "")
    if before != after:
        shared = True
    snap = json.dumps(proj_sf(res))
    try:
        src["XSRC"] = "edited"
        for c in src.charts:
            c.notes = "1111"
        if tmpl is not None:
            tmpl["XTMPL"] = "edited"
            for c in tmpl.charts:
                c.notes = "2222"
        if ctmpl is not None:
            ctmpl.notes = "3333"
    except Exception:  # noqa
        pass
    if json.dumps(proj_sf(res)) != snap:
        shared = True
    rec["shared"] = shared
    return rec


def norm(p, direction):
    """SSC charts re-load with their note data last"""
    if direction != "sm2ssc":
        return p
    out = {"items": p["items"], "charts": []}
    for ch in p["charts"]:
        keys = [e["k"] for e in ch]
        nk = "NOTES" if "NOTES" in keys else ("NOTES2" if "NOTES2" in keys else None)
        out["charts"].append([e for e in ch if e["k"] != nk] + [e for e in ch if e["k"] == nk] if nk else ch)
    return out


def validate(ctx, recs):
    return trace.validate(ctx, "Trace_Convert", DIRS, recs, heap="3g")


def show(p):
    return {"items": [(e["k"], uncps(e["v"])) for e in p["items"]][:30], "charts": [[(e["k"], (uncps(e["v"]) or "")[:20]) for e in c] for c in p["charts"]][:4]}


def corpus(ext):
    import simfile
    out = []
    base = os.path.join(core.REPO, "testdata")
    for root, _, files in sorted(os.walk(base)):
        for f in sorted(files):
            if f.lower().endswith("." + ext):
                out.append((f, os.path.join(root, f)))
    return out
