"""C16 — SM -> SSC conversion keeps every property, chart, timing and note (see c17.py for the shared parts)."""
import random

from harness import core
from . import convert_common as cv
from . import codec_common as cc


def gen_sm(rng, corp, plain):
    import simfile
    from simfile.sm import SMSimfile, SMChart
    r = rng.random()
    if r < 0.45:
        sf = SMSimfile.blank()
    elif r < 0.6 and corp:
        sf = simfile.open(rng.choice(corp)[1])
    else:
        sf = SMSimfile(string="")
        sf["TITLE"] = cc.rand_value(rng, 8)
    sf["OFFSET"] = rng.choice(["0", "-0.125", "1.500", " 0.009 "])
    bp = ["0.000=%s" % rng.choice(["120", "60.5", "200.000"])]
    b = 0
    for _ in range(rng.choice([0, 0, 1, 3])):
        b += rng.choice([1, 4, 8.5, 0.75])
        bp.append("%.3f=%s" % (b, rng.choice(["150", "90.25", "300"])))
    sf["BPMS"] = rng.choice([",", ",\n", " , "]).join(bp)
    st = []
    b = 0
    for _ in range(rng.choice([0, 0, 1, 2])):
        b += rng.choice([2, 4, 6.25])
        st.append("%.3f=%s" % (b, rng.choice(["0.5", "1", "0.125", "0.000", "0"])))
    sf["STOPS"] = ",".join(st)
    if not plain:
        if rng.random() < 0.3:
            sf["DELAYS"] = rng.choice(["", "4=0.5"])
        if rng.random() < 0.3:
            sf["WARPS"] = rng.choice(["", "8=2"])
        if rng.random() < 0.3:
            sf.pop("BGCHANGES", None)
            sf["ANIMATIONS"] = "1.000=anim.avi=1.000=1=0=0"
        for k in ("ORIGIN", "LABELS", "JACKET", "VERSION", "COMBOS", "PREVIEW"):
            if rng.random() < 0.2:
                sf[k] = rng.choice(["", "value", "0.000=Song Start", "0.83"])
        if rng.random() < 0.2:
            sf["VERSION"] = rng.choice(["0.5", "0.7", "0.69", "0.81", "0.83", "0.9", "1", "beta", " 0.5 "])      # (older / newer than any template's)
        for _ in range(rng.randint(0, 3)):
            sf[cc.rand_key(rng, forbid=("NOTES", "FREEZES", "STOPS", "BPMS", "ATTACKS", "DISPLAYBPM", "TITLE", "BGCHANGES", "ANIMATIONS"), allow_meta=False)] = cc.rand_value(rng, 8) if rng.random() < 0.8 else None
        if rng.random() < 0.15:
            sf[rng.choice(["FGCHANGES", "DISPLAYBPM", "GENRE", "INSTRUMENTTRACK"])] = None      # key-only parameters
    n = rng.choice([0, 1, 2, 3])
    while len(sf.charts) > n:
        sf.charts.pop()
    while len(sf.charts) < n:
        c = SMChart.blank()
        c.notes = rng.choice(["0000\n0000\n0000\n0000", "1000\n0100\n0010\n0001\n,\n2000\n0000\n3000\n0000", "00\n11"])
        c.meter = str(rng.randint(1, 15))
        c.description = cc.rand_value(rng, 6).strip()
        if rng.random() < 0.35:
            c.extradata = ["extra component", "0000"][:rng.randint(1, 2)]       # (an SM chart may carry components beyond the sixth)
        sf.charts.append(c)
    return sf


def c16_job(job):
    rid, seed, corp, plain = job
    from simfile.ssc import SSCSimfile, SSCChart
    rng = random.Random(seed)
    src = gen_sm(rng, corp, plain)
    if not plain and rng.random() < 0.12:
        # a negative BPM / stop (the SM-era warp trick): refused, whatever templates the caller hands over
        if rng.random() < 0.5:
            src["BPMS"] = src["BPMS"] + ",\n12.000=-120.000,12.500=120.000"
        else:
            src["STOPS"] = (src["STOPS"] + "," if src["STOPS"] else "") + "16.000=-0.250"
        if rng.random() < 0.7:
            src["WARPS"] = ""
    tmpl = ctmpl = None
    if not plain and rng.random() < 0.4:
        tmpl = SSCSimfile.blank()
        tmpl["TITLE"] = "from template"
        tmpl["XTEMPLATE"] = "kept"
        if rng.random() < 0.5:
            tmpl.charts.append(SSCChart.blank())
        if rng.random() < 0.3:
            tmpl["ANIMATIONS"] = tmpl.pop("BGCHANGES")       # a template that spells a property by its legacy alias
        if "WARPS" in src and rng.random() < 0.6:
            tmpl["WARPS"] = rng.choice(["8.000=2.000", "1=1,\n4=0.5"])      # a template with timing of its own (the source's replaces it)
        if rng.random() < 0.15:
            tmpl["BPMS"] = "0.000=60.000"
        q = rng.random()
        if q < 0.2:
            tmpl.move_to_end("VERSION")                      # a template whose VERSION is not its first property
        elif q < 0.35:
            del tmpl["VERSION"]                              # ... or that has none (the source may bring its own)
        elif q < 0.45:
            tmpl = SSCSimfile(string="")                     # a minimal template built by hand
            tmpl["TITLE"] = "from template"
            tmpl["XTEMPLATE"] = "kept"
            if rng.random() < 0.5:
                tmpl["VERSION"] = "0.83"
    if not plain and rng.random() < 0.4:
        ctmpl = SSCChart.blank()
        ctmpl.credit = "from chart template"
        ctmpl["XCHART"] = "kept"
        ctmpl.move_to_end("NOTES")
        if rng.random() < 0.3:
            ctmpl["NOTES2"] = ctmpl.pop("NOTES")        # a template whose note data is under the legacy spelling
    elif tmpl is not None and tmpl.charts and rng.random() < 0.5:
        ctmpl = tmpl.charts[0]                          # the caller's chart template IS the chart inside its simfile template
    return cv.record_call(rid, "sm2ssc", src, tmpl, ctmpl, [], with_back=plain)


def freezes_probe(rid, with_back=False, keep_stops=False):
    from simfile.sm import SMSimfile
    sf = SMSimfile.blank()
    if not keep_stops:
        del sf["STOPS"]
    sf["FREEZES"] = "4.000=1.000"
    return cv.record_call(rid, "sm2ssc", sf, None, None, [], with_back=with_back)


def run(ctx):
    from . import c17
    c17.run_dir(ctx, "C16", "sm2ssc")
    n = 500 if ctx.quick else 15000
    corp = cv.corpus("sm")
    recs = core.pmap(c16_job, [(i, ctx.seed * 3000 + i, corp, False) for i in range(n)], chunk=50)
    recs.append(freezes_probe(n))
    verdict = cv.validate(ctx, recs)
    c17.judge(ctx, "C16", recs, verdict)
    ctx.notes["c2s_calls"] = len(recs)
    # whole sessions against System.tla: this check judges the rejections at the sm_to_ssc event
    from . import system_common as sysc
    sessions, verdict = sysc.run_sessions(ctx, 150 if ctx.quick else 3000, ctx.seed + 16)
    sysc.judge(ctx, "C16", sessions, verdict, sysc.CONVERT_OPS, "conversion inside a session")
    sysc.mc_for(ctx, "C16")          # MC_System: bounded model of whole sessions, every transition replayed on the library
    ctx.sample({"c2s": {"source": cv.show(recs[2]["src"]), "outcome": recs[2]["st"], "timing_same": recs[2]["timing"], "notes_same": recs[2]["notes"]}})
    ctx.exhaustive = True
    ctx.rule = ("S2C: every case of the bounded MC_Convert sm2ssc configuration (timing strings incl. negative values, FREEZES / ANIMATIONS "
                "aliases, SSC-only keys present, 0..2 charts, custom templates); C2S: random SM sources (blank, corpus, generated) with and "
                "without templates; one evaluation per conversion call")
    ctx.assumptions += [
        "well-formed timing strings; the source carries OFFSET, BPMS and STOPS",
        "timing data and notes are compared through the library's own readers (TimingData, NoteData), as the property says",
        "a source that spells its stops FREEZES is the recorded known finding (directed probe)",
    ]


def replay(rec):
    from . import c17
    return c17.replay(rec)
