----------------------------- MODULE MC_Convert -----------------------------
(* Bounded model of both conversions.  Dir = "ssc2sm": sources built from one  *)
(* representative SSC-only key per kind (simfile and chart level) in every      *)
(* order, each empty / default / default-with-blanks / non-default, under every  *)
(* total or partial behaviour mapping of the kinds involved.  Dir = "sm2ssc":    *)
(* sources with timing strings (incl. negative BPMs / stops, the FREEZES alias),  *)
(* an SSC-only key already present, 0..2 charts.  Templates: a small custom one.   *)
EXTENDS Convert, Json, TLC
CONSTANTS Dir, MaxItems, MaxChartItems, SimKeys, ChartKeys, ValCodes, BehKinds, DoEmit, NotesLast
VARIABLES items, citems, beh, ncharts
vars == <<items, citems, beh, ncharts>>

T(s) == CASE s = "x" -> <<120>> [] s = "T" -> <<84>> [] s = "o" -> <<111>> [] s = "n" -> <<48, 48, 48, 48>>
          [] s = "bpm" -> <<48, 61, 49, 50, 48>>                                  \* 0=120
          [] s = "bpmneg" -> <<48, 61, 49, 50, 48, 44, 10, 52, 61, 45, 54, 48>>    \* 0=120,\n4=-60
          [] s = "stop" -> <<52, 61, 49>>                                          \* 4=1
          [] s = "stopneg" -> <<52, 61, 45, 48, 46, 53>>                           \* 4=-0.5
          [] s = "zero" -> <<48>>
(* value of a key under a value code *)
Val(k, c) == CASE c = "empty" -> <<>>
               [] c = "default" -> DefaultValue(k)
               [] c = "padded" -> <<SP>> \o DefaultValue(k) \o <<LF>>
               [] c = "other" -> <<120>>
               [] c = "warps" -> <<52, 61, 50>>          \* 4=2
               [] c = "warps0" -> <<52, 61, 48, 46, 48, 48, 48>>      \* 4=0.000 : a warp list whose only length is zero is still a warp list
               [] c = "stopzero" -> <<52, 61, 48, 46, 48, 48, 48>>     \* 4=0.000 : zero is not negative
               [] c = "none" -> None                                    \* a key-only property
               [] c = "bpm" -> T("bpm") [] c = "bpmneg" -> T("bpmneg") [] c = "stop" -> T("stop") [] c = "stopneg" -> T("stopneg")
ItemsOf(seq) == [i \in DOMAIN seq |-> [k |-> seq[i].k, v |-> Val(seq[i].k, seq[i].c)]]

Init == items = <<>> /\ citems = <<>> /\ beh = <<>> /\ ncharts = 1
AddItem == /\ Len(items) < MaxItems
           /\ \E k \in SimKeys, c \in ValCodes : (\A i \in DOMAIN items : items[i].k # k) /\ items' = Append(items, [k |-> k, c |-> c])
           /\ UNCHANGED <<citems, beh, ncharts>>
AddChartItem == /\ Len(citems) < MaxChartItems
                /\ \E k \in ChartKeys, c \in ValCodes : (\A i \in DOMAIN citems : citems[i].k # k) /\ citems' = Append(citems, [k |-> k, c |-> c])
                /\ UNCHANGED <<items, beh, ncharts>>
SetBeh == /\ \E kd \in BehKinds \ DOMAIN beh, b \in Behaviours : beh' = [x \in DOMAIN beh \cup {kd} |-> IF x = kd THEN b ELSE beh[x]]
          /\ UNCHANGED <<items, citems, ncharts>>
SetCharts == /\ \E n \in {0, 2} : ncharts = 1 /\ ncharts' = n
             /\ UNCHANGED <<items, citems, beh>>
Next == AddItem \/ AddChartItem \/ SetBeh \/ SetCharts
Spec == Init /\ [][Next]_vars

Fields6 == <<[k |-> "STEPSTYPE", v |-> <<100>>], [k |-> "DESCRIPTION", v |-> <<>>], [k |-> "DIFFICULTY", v |-> <<69>>],
             [k |-> "METER", v |-> <<53>>], [k |-> "RADARVALUES", v |-> <<>>]>>
NotesItem == [k |-> "NOTES", v |-> T("n")]
SrcChart == IF NotesLast THEN Fields6 \o ItemsOf(citems) \o <<NotesItem>> ELSE Fields6 \o <<NotesItem>> \o ItemsOf(citems)
Src == [items |-> <<[k |-> "TITLE", v |-> T("x")]>> \o ItemsOf(items), charts |-> [j \in 1..ncharts |-> SrcChart]]
(* custom templates: a property the source also has, an SSC-only property, an existing chart *)
BlankSMChart == [i \in 1..6 |-> [k |-> SMFields[i], v |-> <<>>]]
Tmpl == IF Dir = "ssc2sm" THEN [items |-> <<[k |-> "TITLE", v |-> T("T")], [k |-> "ORIGIN", v |-> T("o")], [k |-> "GENRE", v |-> T("o")]>>,
                                charts |-> <<[BlankSMChart EXCEPT ![4].v = T("zero")]>>]
        ELSE [items |-> <<[k |-> "VERSION", v |-> T("zero")], [k |-> "TITLE", v |-> T("T")], [k |-> "STOPS", v |-> <<>>], [k |-> "LABELS", v |-> T("o")]>>,
              charts |-> << <<[k |-> "CHARTNAME", v |-> T("o")], [k |-> "NOTES", v |-> <<>>]>> >>]
CTmpl == IF Dir = "ssc2sm" THEN [BlankSMChart EXCEPT ![2].v = T("o")]
         ELSE <<[k |-> "CHARTNAME", v |-> T("T")], [k |-> "STEPSTYPE", v |-> <<>>], [k |-> "CREDIT", v |-> T("o")], [k |-> "NOTES", v |-> <<>>]>>

Res == IF Dir = "ssc2sm" THEN SscToSm(Src, Tmpl, CTmpl, beh)
       ELSE SmToSsc([Src EXCEPT !.charts = [j \in 1..ncharts |-> Fields6 \o <<NotesItem>>]], Tmpl, CTmpl)

(* C17 *)
InvDeclarative == Dir = "ssc2sm" => SscToSmOK(Src, Tmpl, CTmpl, beh, Res)
InvOutcomes == Res.st \in {"ok", "InvalidPropertyException", "NotImplementedError", "KeyError"}
AllItems == Src.items \o (IF ncharts = 0 THEN <<>> ELSE SrcChart)       \* conversion order: simfile items, then each chart's
InvFirstOffender == (Dir = "ssc2sm" /\ Res.st = "InvalidPropertyException") =>
  LET off == {i \in DOMAIN AllItems :
                LET it == AllItems[i]
                    kind == IF i <= Len(Src.items) THEN SMSimfileKind(it.k) ELSE SMChartKind(it.k) IN
                Decide(kind, it.k, it.v, beh) = "raise"} IN
  off # {} /\ AllItems[CHOOSE i \in off : \A j \in off : i <= j].k = Res.key
InvRaiseIff == Dir = "ssc2sm" =>
  (Res.st = "NotImplementedError" <=> (Has(Src.items, "WARPS") /\ NonBlank(Get(Src.items, "WARPS"))))
(* C16 *)
InvSmToSsc == Dir = "sm2ssc" =>
  LET neg == HasNegative(AttrSM(Src.items, "BPMS", "BPMS")) \/ HasNegative(AttrSM(Src.items, "STOPS", "FREEZES")) IN
  /\ (Res.st = "NotImplementedError" <=> neg)
  /\ Res.st = "ok" =>
       /\ \A i \in DOMAIN Src.items : Has(Res.items, Src.items[i].k) /\ Get(Res.items, Src.items[i].k) = Src.items[i].v
       /\ \A i \in DOMAIN Tmpl.items : Has(Res.items, Tmpl.items[i].k)
                                       /\ (~Has(Src.items, Tmpl.items[i].k) => Get(Res.items, Tmpl.items[i].k) = Tmpl.items[i].v)
       /\ Len(Res.charts) = Len(Tmpl.charts) + ncharts
       /\ \A j \in 1..ncharts : \A f \in 1..6 : Get(Res.charts[Len(Tmpl.charts) + j], SMFields[f]) = Get(Fields6 \o <<NotesItem>>, SMFields[f])
       /\ \A j \in 1..ncharts : Get(Res.charts[Len(Tmpl.charts) + j], "CREDIT") = T("o")

Emit == DoEmit => PrintT(ToJson([dir |-> Dir, src |-> Src, tmpl |-> Tmpl, ctmpl |-> CTmpl,
                                 beh |-> [k \in DOMAIN beh |-> beh[k]], behkinds |-> DOMAIN beh, res |-> Res,
                                 freezes |-> FreezesFinding(Src), unclaimed |-> (Dir = "ssc2sm" /\ BlankOnlyWarps(Src))]))
=============================================================================
