----------------------------- MODULE MC_Library -----------------------------
(* Bounded model of mutate(): every content class x name configuration x edit  *)
(* script x body outcome x injected fault at the k-th filesystem call, for the   *)
(* two save protocols:                                                            *)
(*   "render_then_write"    serialize + encode first, then write backup, output   *)
(*   "truncate_then_stream" open the output (truncating it) and stream into it    *)
(*                          (what the library did before its repair)              *)
(* One action per step of the code: CheckNames, TryDecode(enc), body steps,       *)
(* Render, OpenW / Write / Close per file.  Every invariant is evaluated in       *)
(* every state.                                                                   *)
EXTENDS Library, Json, TLC
CONSTANTS Proto, MaxFault, DoEmit, Decodable
VARIABLES fs, fs0, cfg, pc, k, obj, entry, enc, calls, exc, script, wr, cause
vars == <<fs, fs0, cfg, pc, k, obj, entry, enc, calls, exc, script, wr, cause>>

Encs == <<"utf-8", "cp1252", "cp932", "cp949">>
(* content classes of the input file and what they decode to *)
(* which (class, encoding) pairs decode is a CONSTANT computed by the harness with Python's codecs *)
(* from the concrete file contents it will use for each class: the model and the replay agree by  *)
(* construction on what "decodes" means                                                             *)
DecTab == [c \in {"A", "U", "J", "K", "X"} |->
             [e \in {"utf-8", "cp1252", "cp932", "cp949"} |->
                IF (c \o "|" \o e) \in Decodable THEN (IF c = "A" THEN "tA" ELSE c \o "/" \o e) ELSE NoText]]
Classes == {"A", "U", "J", "K", "X"}
TriedLists == {Encs, <<"cp949", "cp932", "cp1252", "utf-8">>, <<"cp932">>, <<"utf-8">>}
(* edits inside the block: "a" an ASCII edit, "j" adds a character only some code pages have, *)
(* "bad" makes the simfile unserializable                                                       *)
Edits == {"a", "j", "bad"}
Outcomes == {"normal", "raise:Exception", "raise:KeyboardInterrupt", "raise:SystemExit", "cancel"}
Scripts == {<<>>} \cup {<<e>> : e \in Edits} \cup {<<"a", e>> : e \in Edits}
NameCfgs == {[in |-> "in", out |-> o, bak |-> b] : o \in {NoName, "out", "other"}, b \in {NoName, "bak", "in", "out", "other"}}

Obj(text, edits) == [text |-> text, edits |-> edits]
Serializable(o) == \A i \in DOMAIN o.edits : o.edits[i] # "bad"
Encodable(o, e) == ~(e = "cp1252" /\ \E i \in DOMAIN o.edits : o.edits[i] = "j")
Written(o, e) == [kind |-> "w", obj |-> o, enc |-> e]          \* content produced by a complete save
Half(o, e) == [kind |-> "half", obj |-> o, enc |-> e]          \* a save cut short
File(c) == [c |-> c, partial |-> FALSE]
Orig(cl) == [kind |-> "orig", class |-> cl]
NoObj == Obj(NoText, <<>>)
ParsedAs(c, e) == IF c.kind = "orig" THEN Obj(DecTab[c.class][e], <<>>)
                  ELSE IF c.kind = "w" /\ c.enc = e THEN c.obj ELSE NoObj

Names == {"in", "out", "bak", "other"}
Init == /\ \E cl \in Classes, nm \in NameCfgs, tr \in TriedLists, sc \in Scripts, oc \in Outcomes, at \in 0..2, f \in 0..MaxFault :
             /\ cfg = [class |-> cl, names |-> nm, tried |-> tr, outcome |-> oc, raiseAt |-> IF oc = "normal" THEN 0 ELSE at, fault |-> f]
             /\ script = sc /\ at <= Len(sc)
             /\ fs = [n \in Names |-> IF n = "in" THEN File(Orig(cl)) ELSE IF n = "other" THEN File(Orig("A")) ELSE File(Absent)]
        /\ fs0 = fs /\ pc = "check" /\ k = 1 /\ obj = NoObj /\ entry = NoObj /\ enc = NoName
        /\ calls = 0 /\ exc = NoName /\ wr = NoName /\ cause = NoName

Fails == cfg.fault # 0 /\ calls + 1 = cfg.fault        \* the next filesystem call is the one that fails
Raise(e, why) == /\ exc' = e /\ cause' = why /\ pc' = "done"

CheckNames == /\ pc = "check"
              /\ IF NameClash(cfg.names) THEN Raise("ValueError", "clash") /\ UNCHANGED <<fs, k, obj, entry, enc, calls, wr>>
                 ELSE pc' = "decode" /\ UNCHANGED <<fs, k, obj, entry, enc, calls, exc, wr, cause>>
              /\ UNCHANGED <<fs0, cfg, script>>

TryDecode == /\ pc = "decode"
             /\ IF k > Len(cfg.tried) THEN Raise("UnicodeDecodeError", "decode") /\ UNCHANGED <<fs, k, obj, entry, enc, calls, wr>>
                ELSE IF Fails THEN Raise("OSError", "open-read") /\ calls' = calls + 1 /\ UNCHANGED <<fs, k, obj, entry, enc, wr>>
                ELSE LET t == DecTab[cfg.class][cfg.tried[k]] IN
                     /\ calls' = calls + 1
                     /\ IF t = NoText THEN k' = k + 1 /\ UNCHANGED <<pc, obj, entry, enc, exc, cause>>
                        ELSE /\ enc' = cfg.tried[k] /\ obj' = Obj(t, <<>>) /\ entry' = Obj(t, <<>>)
                             /\ pc' = "body" /\ k' = 1 /\ UNCHANGED <<exc, cause>>
                     /\ UNCHANGED <<fs, wr>>
             /\ UNCHANGED <<fs0, cfg, script>>

Body == /\ pc = "body"
        /\ IF cfg.outcome # "normal" /\ cfg.raiseAt = k - 1
           THEN (IF cfg.outcome = "cancel" THEN pc' = "done" /\ cause' = "cancel" /\ UNCHANGED exc
                 ELSE Raise(cfg.outcome, "body")) /\ UNCHANGED <<obj, k>>
           ELSE IF k <= Len(script) THEN obj' = [obj EXCEPT !.edits = Append(@, script[k])] /\ k' = k + 1 /\ UNCHANGED <<pc, exc, cause>>
           ELSE pc' = (IF Proto = "render_then_write" THEN "render" ELSE "openbak") /\ UNCHANGED <<obj, k, exc, cause>>
        /\ UNCHANGED <<fs, fs0, cfg, entry, enc, calls, script, wr>>

Render == /\ pc = "render"
          /\ IF ~Serializable(obj) THEN Raise("AttributeError", "unserializable")
             ELSE IF ~Encodable(obj, enc) THEN Raise("UnicodeEncodeError", "unencodable")
             ELSE pc' = "openbak" /\ UNCHANGED <<exc, cause>>
          /\ UNCHANGED <<fs, fs0, cfg, k, obj, entry, enc, calls, script, wr>>

(* writing one file: open (truncate), write, close - each a filesystem call that may fail *)
OpenBak == /\ pc = "openbak"
           /\ IF cfg.names.bak = NoName THEN pc' = "openout" /\ UNCHANGED <<fs, calls, exc, wr, cause>>
              ELSE IF Fails THEN Raise("OSError", "open-refused") /\ calls' = calls + 1 /\ UNCHANGED <<fs, wr>>
              ELSE /\ fs' = [fs EXCEPT ![cfg.names.bak] = [c |-> Empty, partial |-> TRUE]]
                   /\ wr' = cfg.names.bak /\ calls' = calls + 1 /\ pc' = "writebak" /\ UNCHANGED <<exc, cause>>
           /\ UNCHANGED <<fs0, cfg, k, obj, entry, enc, script>>
WriteBak == /\ pc = "writebak"
            /\ IF Fails THEN Raise("OSError", "write") /\ calls' = calls + 1 /\ UNCHANGED fs
               ELSE fs' = [fs EXCEPT ![wr].c = Written(entry, enc)] /\ calls' = calls + 1 /\ pc' = "closebak" /\ UNCHANGED <<exc, cause>>
            /\ UNCHANGED <<fs0, cfg, k, obj, entry, enc, script, wr>>
CloseBak == /\ pc = "closebak"
            /\ IF Fails THEN Raise("OSError", "close") /\ calls' = calls + 1 /\ UNCHANGED fs
               ELSE fs' = [fs EXCEPT ![wr].partial = FALSE] /\ calls' = calls + 1 /\ pc' = "openout" /\ UNCHANGED <<exc, cause>>
            /\ UNCHANGED <<fs0, cfg, k, obj, entry, enc, script, wr>>
OpenOut == /\ pc = "openout"
           /\ IF Fails THEN Raise("OSError", "open-refused") /\ calls' = calls + 1 /\ UNCHANGED <<fs, wr>>
              ELSE /\ fs' = [fs EXCEPT ![Target(cfg.names)] = [c |-> Empty, partial |-> TRUE]]
                   /\ wr' = Target(cfg.names) /\ calls' = calls + 1 /\ pc' = "writeout" /\ UNCHANGED <<exc, cause>>
           /\ UNCHANGED <<fs0, cfg, k, obj, entry, enc, script>>
WriteOut == /\ pc = "writeout"
            /\ IF Proto = "truncate_then_stream" /\ ~Serializable(obj)
               THEN Raise("AttributeError", "unserializable") /\ UNCHANGED <<fs, calls>>            \* serialize() raises with the file open
               ELSE IF Proto = "truncate_then_stream" /\ ~Encodable(obj, enc)
               THEN Raise("UnicodeEncodeError", "unencodable") /\ fs' = [fs EXCEPT ![wr].c = Half(obj, enc)] /\ UNCHANGED calls
               ELSE IF Fails THEN Raise("OSError", "write") /\ calls' = calls + 1 /\ UNCHANGED fs
               ELSE fs' = [fs EXCEPT ![wr].c = Written(obj, enc)] /\ calls' = calls + 1 /\ pc' = "closeout" /\ UNCHANGED <<exc, cause>>
            /\ UNCHANGED <<fs0, cfg, k, obj, entry, enc, script, wr>>
CloseOut == /\ pc = "closeout"
            /\ IF Fails THEN Raise("OSError", "close") /\ calls' = calls + 1 /\ UNCHANGED fs
               ELSE fs' = [fs EXCEPT ![wr].partial = FALSE] /\ calls' = calls + 1 /\ pc' = "done" /\ cause' = "saved" /\ UNCHANGED exc
            /\ UNCHANGED <<fs0, cfg, k, obj, entry, enc, script, wr>>

Next == CheckNames \/ TryDecode \/ Body \/ Render \/ OpenBak \/ WriteBak \/ CloseBak \/ OpenOut \/ WriteOut \/ CloseOut
Spec == Init /\ [][Next]_vars

-----------------------------------------------------------------------------
PA == [c \in {fs[n].c : n \in Names} |-> IF enc = NoName THEN NoObj ELSE ParsedAs(c, enc)]
(* C05 *)
InvDetected == /\ enc # NoName => enc = Detected(cfg.tried, DecTab[cfg.class])
               /\ (pc = "done" /\ cause \notin {"clash", "open-read"}) =>
                    (enc = NoName <=> Detected(cfg.tried, DecTab[cfg.class]) = NoName)
InvNoDecode == (pc = "done" /\ cause = "decode") <=> (pc = "done" /\ exc = "UnicodeDecodeError")
InvDecodeErrorOnlyIfNone == exc = "UnicodeDecodeError" => Detected(cfg.tried, DecTab[cfg.class]) = NoName
InvSaved == (pc = "done" /\ cause = "saved") =>
              /\ ParsedAs(fs[Target(cfg.names)].c, enc) = obj /\ ~fs[Target(cfg.names)].partial
              /\ (cfg.names.bak # NoName => ParsedAs(fs[cfg.names.bak].c, enc) = entry /\ ~fs[cfg.names.bak].partial)
InvOthers == OnlyAllowedChange(cfg.names, fs0, fs)
InvInput == InputUntouchedWhenOutputGiven(cfg.names, fs0, fs)
InvClash == NameClash(cfg.names) => fs = fs0 /\ (pc = "done" => exc = "ValueError")
(* C06 *)
InvI1 == (pc = "done" /\ cause \in {"body", "cancel"}) =>
           /\ fs = fs0
           /\ (cause = "cancel" => exc = NoName) /\ (cause = "body" => exc = cfg.outcome)
InvI2 == (pc = "done" /\ cause \in {"unserializable", "unencodable", "open-refused"}) => fs["in"] = fs0["in"]
InvI3 == (pc \in {"openout", "writeout", "closeout"}) => BackupGood(cfg.names, fs, PA, entry)
InvNothingBeforeExit == pc \in {"check", "decode", "body", "render"} => fs = fs0

Emit == (DoEmit /\ pc = "done") =>
          PrintT(ToJson([cfg |-> cfg, script |-> script, exc |-> exc, cause |-> cause, calls |-> calls,
                         changed |-> {n \in Names : fs[n] # fs0[n]},
                         state |-> [n \in Names |-> IF fs[n] = fs0[n] THEN "same"
                                                     ELSE IF fs[n].partial \/ fs[n].c.kind \in {"empty", "half", "absent"} THEN "damaged"
                                                     ELSE IF fs[n].c.obj = entry /\ n = cfg.names.bak THEN "entry" ELSE "exit"]]))
=============================================================================
