"""Shared pieces: tiers/seeds, code-under-test import, violations & known findings,
evidence files, replay files."""
import hashlib
import json
import os
import subprocess
import sys
import time

VERIF = os.path.dirname(os.path.dirname(os.path.abspath(__file__)))
REPO = os.environ.get("VERIF_REPO", "/repo")
EVIDENCE_SCHEMA = "/root/.vp/EVIDENCE.schema.json"


def use_repo():
    """Put the code under test first on sys.path (pure Python: importing from the
    working tree *is* rebuilding from it)."""
    os.environ.setdefault("SIMFILE_VERIF", "1")
    if REPO not in sys.path[:1]:
        sys.path.insert(0, REPO)
    import simfile  # noqa
    got = os.path.dirname(os.path.dirname(os.path.abspath(simfile.__file__)))
    if os.path.realpath(got) != os.path.realpath(REPO):
        raise RuntimeError("simfile imported from %s, expected %s" % (got, REPO))


class Ctx:
    """One run of one check."""

    def __init__(self, pid, tier, seed):
        self.pid = pid
        self.tier = tier
        self.seed = seed
        self.t0 = time.time()
        self.violations = []       # dicts: key, what, case
        self._vsigs = set()
        self.vkeys = {}
        self.known_hits = {}       # key -> count
        self.states = 0
        self.transitions = 0
        self.traces = 0            # S2C transitions replayed + C2S traces validated
        self.evaluations = 0
        self.nontrivial = set()
        self.nontrivial_count = 0
        self.samples = []
        self.notes = {}
        self.assumptions = []
        self.tlc_runs = []
        self.exhaustive = None
        self.rule = ""
        with open(os.path.join(VERIF, "known_findings.json")) as f:
            self.findings = [e for e in json.load(f)["findings"] if e["property"] == pid]

    @property
    def quick(self):
        return self.tier == "quick"

    # ---- accounting -----------------------------------------------------------------
    def add_tlc(self, name, res, coverage_required=()):
        self.states += res.distinct
        self.transitions += res.generated
        self.tlc_runs.append({"name": name, "distinct": res.distinct, "generated": res.generated,
                              "depth": res.depth, "wall_s": round(res.wall, 2),
                              "coverage": {k: v[1] for k, v in res.coverage.items()}})
        for act in coverage_required:
            if res.coverage.get(act, (0, 0))[1] == 0:
                raise MachineryError("vacuity: action %s never taken in %s" % (act, name))

    def sample(self, obj, limit=6):
        if len(self.samples) < limit:
            self.samples.append(obj)

    def nontrivial_add(self, key):
        h = hashlib.blake2b(repr(key).encode("utf-8", "surrogatepass"), digest_size=8).digest()
        self.nontrivial.add(h)

    # ---- violations -----------------------------------------------------------------
    def violation(self, key, what, case):
        """key: classifier key (compared against known_findings.json); what: text;
        case: JSON-able description sufficient to re-run against the real code."""
        for e in self.findings:
            if e["key"] == key and e["status"] == "open":
                self.known_hits[key] = self.known_hits.get(key, 0) + 1
                return
        sig = json.dumps([key, case], sort_keys=True, default=str)
        if sig in self._vsigs:
            return
        self._vsigs.add(sig)
        self.vkeys[key] = self.vkeys.get(key, 0) + 1
        if len(self.violations) < 50:
            self.violations.append({"key": key, "what": what, "case": case})
        else:
            self.violations.append(None)

    def finish(self, level="model_checking"):
        wall = time.time() - self.t0
        nviol = len(self.violations)
        for e in self.findings:
            if e["status"] == "open" and self.known_hits.get(e["key"]):
                print("KNOWN-FINDING: property=%s %s [%s; seen %d times this run]" % (
                    self.pid, e["what"], e["key"], self.known_hits[e["key"]]))
        os.makedirs(os.path.join(VERIF, "replays"), exist_ok=True)
        shown = 0
        for v in self.violations:
            if v is None:
                continue
            blob = json.dumps({"property": self.pid, **v}, sort_keys=True, ensure_ascii=True)
            name = "%s-%s.json" % (self.pid, hashlib.sha1(blob.encode()).hexdigest()[:12])
            path = os.path.join(VERIF, "replays", name)
            with open(path, "w") as f:
                f.write(blob)
            if shown < 10:
                print("VIOLATION property=%s replay=%s" % (self.pid, path))
                print("  key=%s :: %s" % (v["key"], v["what"][:600]))
                shown += 1
        if nviol > shown:
            print("  (+%d more violations not shown)" % (nviol - shown))
        if self.vkeys:
            print("  violation classes: %s" % json.dumps(self.vkeys, sort_keys=True))
        nn = len(self.nontrivial) + self.nontrivial_count
        cov = {
            "states": self.states,
            "transitions": self.transitions,
            "traces_validated_against_impl": self.traces,
            "samples": self.samples or ["(none)"],
            "evaluations": max(self.evaluations, 0),
            "distinct_nontrivial": nn,
            "rule": self.rule,
            "tlc_runs": self.tlc_runs,
            "known_findings_seen": self.known_hits,
        }
        if self.exhaustive is not None:
            cov["exhaustive"] = self.exhaustive
        cov.update(self.notes)
        ev = {
            "property_id": self.pid,
            "tier": self.tier,
            "seed": self.seed,
            "level": level,
            "coverage": cov,
            "assumptions": self.assumptions,
            "wall_s": round(wall, 2),
            "violations": nviol,
        }
        # VERIF_EVIDENCE_DIR: only for self-tests against scratch copies (seeded changes), so that
        # such runs never overwrite the evidence of the real tree
        path = os.path.join(os.environ.get("VERIF_EVIDENCE_DIR") or os.path.join(VERIF, "evidence"),
                            "%s.json" % self.pid)
        os.makedirs(os.path.dirname(path), exist_ok=True)
        with open(path, "w") as f:
            json.dump(ev, f, indent=1, ensure_ascii=True, default=str)
        validate_evidence(path)
        print("%s %s: states=%d transitions=%d impl-traces=%d evaluations=%d nontrivial=%d "
              "violations=%d known=%d wall=%.1fs" % (
                  self.pid, self.tier, self.states, self.transitions, self.traces,
                  self.evaluations, nn, nviol, sum(self.known_hits.values()), wall))
        return 1 if nviol else 0


class MachineryError(Exception):
    pass


def validate_evidence(path):
    code = ("import json,sys,jsonschema;"
            "jsonschema.validate(json.load(open(sys.argv[1])), json.load(open(sys.argv[2])))")
    if not os.path.exists(EVIDENCE_SCHEMA):
        return
    p = subprocess.run(["python3-vt", "-c", code, path, EVIDENCE_SCHEMA],
                       stdout=subprocess.PIPE, stderr=subprocess.STDOUT, text=True)
    if p.returncode != 0:
        raise MachineryError("evidence does not validate: " + p.stdout[-800:])


# ---- value encoding (Python <-> TLA+) -------------------------------------------------

NONE = [-1]


def cps(s):
    """text -> list of code points; None -> [-1]"""
    if s is None:
        return [-1]
    return [ord(c) for c in s]


def uncps(l):
    if l == [-1]:
        return None
    return "".join(chr(c) for c in l)


def chunks(seq, n):
    """split seq into n nearly equal consecutive parts (dropping empty ones)"""
    k, m = divmod(len(seq), n)
    out, i = [], 0
    for j in range(n):
        sz = k + (1 if j < m else 0)
        if sz:
            out.append(seq[i:i + sz])
        i += sz
    return out


def pmap(fn, items, procs=16, chunk=200):
    """map a pure, picklable-by-name function over items in forked worker processes
    (the code under test is imported before the fork, so every worker runs /repo's tree)"""
    import multiprocessing as mp
    if len(items) < 400 or procs <= 1:
        return [fn(x) for x in items]
    ctxmp = mp.get_context("fork")
    with ctxmp.Pool(procs) as pool:
        return pool.map(fn, items, chunksize=chunk)
