--------------------------- MODULE Trace_NoteData ---------------------------
(* Validates executions recorded from the real NoteData class.                *)
(*  t = "decode": text -> notes the library yielded, .columns, str(), and a   *)
(*               sample of comparison results between yielded notes            *)
(*  t = "encode": a sorted stream -> NoteData.from_notes(...) text, the notes  *)
(*               read back from it, .columns, and the text of a second pass    *)
EXTENDS NoteData, Json, IOUtils
VARIABLE i
Recs == ndJsonDeserialize(IOEnv.TRACE_FILE)
N == Len(Recs)

CmpOK(ns, c) ==          \* c = [i, j, lt, le, gt, ge]
  LET a == ns[c.i]  b == ns[c.j] IN
  /\ c.lt = PosLess(a, b)
  /\ c.le = PosLeq(a, b)
  /\ c.gt = PosLess(b, a)
  /\ c.ge = PosLeq(b, a)

(* which field of which note differs (evaluated only after a mismatch) *)
DiffClause(got, exp) ==
  IF Len(got) # Len(exp) THEN "note-count"
  ELSE IF \E k \in DOMAIN exp : got[k].n # exp[k].n \/ got[k].d # exp[k].d THEN "beat"
  ELSE IF \E k \in DOMAIN exp : got[k].c # exp[k].c THEN "column"
  ELSE IF \E k \in DOMAIN exp : got[k].t # exp[k].t THEN "type"
  ELSE IF \E k \in DOMAIN exp : got[k].p # exp[k].p THEN "player"
  ELSE "keysound"

DecodeClause(r) ==
  IF r.st # "ok" THEN "decode-raised"
  ELSE IF r.notes # Decode(r.text) THEN DiffClause(r.notes, Decode(r.text))
  ELSE IF ~StrictlyIncreasing(r.notes) THEN "domain:not-well-formed"
  ELSE IF r.columns # Columns(r.text) THEN "columns"
  ELSE IF ~r.strsame THEN "str-differs"
  ELSE IF \E k \in DOMAIN r.cmp : ~CmpOK(r.notes, r.cmp[k]) THEN "comparison-operators"
  ELSE IF ~r.sortedsame THEN "sorted-differs"
  ELSE ""

EncodeClause(r) ==
  IF ~(StrictlyIncreasing(r.notes) /\ \A k \in DOMAIN r.notes : WellFormedNote(r.notes[k], r.cols)) THEN "domain:stream-not-sorted"
  ELSE IF r.st # "ok" THEN "encode-raised"
  ELSE IF Decode(r.text) # r.notes THEN "text-does-not-decode-to-the-stream"
  ELSE IF r.back # r.notes THEN "read-back-differs"
  ELSE IF r.columns # r.cols \/ Columns(r.text) # r.cols \/ ~AllRowsWide(r.text, r.cols) THEN "columns"
  ELSE IF Shape(r.text) # ExpectedShape(r.notes) THEN "measure-shape"
  ELSE IF r.text2 # r.text THEN "second-pass-differs"
  ELSE ""

(* measures with hundreds of thousands of rows: judged on what the harness measured on the (megabytes long) text *)
EncodeBigClause(r) ==
  IF ~(StrictlyIncreasing(r.notes) /\ \A k \in DOMAIN r.notes : WellFormedNote(r.notes[k], r.cols)) THEN "domain:stream-not-sorted"
  ELSE IF r.st # "ok" THEN "encode-raised"
  ELSE IF r.back # r.notes THEN "read-back-differs"
  ELSE IF r.columns # r.cols \/ ~r.wide THEN "columns"
  ELSE IF r.shape # ExpectedShape(r.notes) THEN "measure-shape"
  ELSE IF ~r.stable THEN "second-pass-differs"
  ELSE ""

Verdict(r) == IF r.t = "decode" THEN DecodeClause(r) ELSE IF r.t = "encodebig" THEN EncodeBigClause(r) ELSE EncodeClause(r)
Init == i = 1
Next == i <= N /\ PrintT(ToJson([id |-> Recs[i].id, clause |-> Verdict(Recs[i])])) /\ i' = i + 1
Spec == Init /\ [][Next]_i
=============================================================================
