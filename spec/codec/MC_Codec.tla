----------------------------- MODULE MC_Codec ------------------------------
(* Bounded model of the object -> text -> object cycle (C01 for Fmt = "sm",  *)
(* C02 for Fmt = "ssc"): objects are built by edit actions from the empty    *)
(* simfile, every reachable object is serialized with the canonical          *)
(* serializer, tokenized with the MSD model and parsed back.                  *)
EXTENDS Codec, Json, TLC
CONSTANTS Fmt,          \* "sm" | "ssc"
          Sigma,        \* alphabet of simfile-level values
          ValLen,       \* maximal length of simfile-level values
          MaxItems, MaxCharts,
          ChartMode,    \* 0: no charts; 1: small chart alphabet; 2: larger
          WithVersion,  \* TRUE: VERSION is among the keys
          DoEmit
VARIABLE obj
vars == <<obj>>

Strs(S, n) == UNION {[1..m -> S] : m \in 0..n}
Vals == Strs(Sigma, ValLen) \cup {None}
K_T == <<84>>
K_X == <<88>>
K_S == <<83>>
Keys == {K_T, K_ATTACKS, K_X} \cup (IF WithVersion THEN {K_VERSION} ELSE {})

a == 97
FieldVals == IF ChartMode = 2
             THEN {<<>>, <<a>>, <<a, COLON>>, <<SEMI>>, <<BSL>>, <<SLASH, SLASH>>, <<a, LF, a>>, <<HASH>>}
             ELSE {<<>>, <<a>>, <<a, COLON>>, <<SEMI>>}
ExtraVals == IF ChartMode = 2
             THEN {<<>>, <<<<a>>>>, <<<<>>, <<a, COLON>>>>, <<<<a, LF>>, <<a>>>>, <<<<SP, a, SP>>>>}
             ELSE {<<>>, <<<<a>>>>, <<<<>>, <<a, COLON>>>>}
BlankSM == [fields |-> [i \in 1..6 |-> <<>>], extra |-> <<>>]

(* SSC chart alphabet: deliberately full of EQUAL values and empty strings   *)
(* ChartMode 3: the smallest alphabets (used with two charts, where the space is the square) *)
ChartKeys == IF ChartMode = 3 THEN {K_S, K_X} ELSE {K_S, K_ATTACKS, K_X}
ChartVals == IF ChartMode = 2 THEN {<<>>, <<a>>, <<98>>, <<a, COLON, 98>>, <<SEMI>>, None}
             ELSE IF ChartMode = 3 THEN {<<>>, <<a>>}
             ELSE {<<>>, <<a>>, <<a, COLON, 98>>, None}
NotesVals == IF ChartMode = 3 THEN {<<>>, <<a>>} ELSE {<<>>, <<a>>, <<98>>}

Init == obj = [items |-> <<>>, charts |-> <<>>]

SetItem == \E k \in Keys, v \in Vals :
             /\ MHas(obj.items, k) \/ Len(obj.items) < MaxItems
             /\ obj' = [obj EXCEPT !.items = MPut(@, k, v)]
DelItem == \E k \in Keys : MHas(obj.items, k) /\ obj' = [obj EXCEPT !.items = SelectSeq(@, LAMBDA e : e.k # k)]

RemoveChart == \E j \in DOMAIN obj.charts :
                 obj' = [obj EXCEPT !.charts = SubSeq(@, 1, j - 1) \o SubSeq(@, j + 1, Len(@))]
SwapCharts == /\ Len(obj.charts) >= 2
              /\ obj' = [obj EXCEPT !.charts = <<@[2], @[1]>> \o SubSeq(@, 3, Len(@))]

(* SM charts *)
AppendSMChart == /\ Fmt = "sm" /\ ChartMode > 0 /\ Len(obj.charts) < MaxCharts
                 /\ obj' = [obj EXCEPT !.charts = Append(@, BlankSM)]
SetField == /\ Fmt = "sm"
            /\ \E j \in DOMAIN obj.charts, f \in {1, 5, 6}, v \in FieldVals :
                 obj' = [obj EXCEPT !.charts[j].fields[f] = v]
SetExtra == /\ Fmt = "sm"
            /\ \E j \in DOMAIN obj.charts, x \in ExtraVals : obj' = [obj EXCEPT !.charts[j].extra = x]

(* SSC charts: exactly one of NOTES / NOTES2, at any position *)
AppendSSCChart == /\ Fmt = "ssc" /\ ChartMode > 0 /\ Len(obj.charts) < MaxCharts
                  /\ \E nk \in {K_NOTES, K_NOTES2}, v \in NotesVals :
                       obj' = [obj EXCEPT !.charts = Append(@, <<[k |-> nk, v |-> v]>>)]
ChartSet == /\ Fmt = "ssc"
            /\ \E j \in DOMAIN obj.charts, k \in ChartKeys, v \in ChartVals :
                 /\ MHas(obj.charts[j], k) \/ Len(obj.charts[j]) < 3
                 /\ obj' = [obj EXCEPT !.charts[j] = MPut(@, k, v)]
ChartDel == /\ Fmt = "ssc"
            /\ \E j \in DOMAIN obj.charts, k \in ChartKeys :
                 /\ MHas(obj.charts[j], k)
                 /\ obj' = [obj EXCEPT !.charts[j] = SelectSeq(@, LAMBDA e : e.k # k)]
ChartMoveNotes ==     \* delete and re-insert the note data: it moves to the end
            /\ Fmt = "ssc"
            /\ \E j \in DOMAIN obj.charts :
                 LET c == obj.charts[j]  nk == ChartNotesKey(c) IN
                 /\ c[Len(c)].k # nk
                 /\ obj' = [obj EXCEPT !.charts[j] = NormChart(c)]

Next == SetItem \/ DelItem \/ RemoveChart \/ SwapCharts \/ AppendSMChart \/ SetField \/ SetExtra
        \/ AppendSSCChart \/ ChartSet \/ ChartDel \/ ChartMoveNotes
Spec == Init /\ [][Next]_vars

-----------------------------------------------------------------------------
InGap == IF Fmt = "sm" THEN SMObjInGap(obj) ELSE SSCObjInGap(obj)
Text  == IF Fmt = "sm" THEN SerSM(obj) ELSE SerSSC(obj)
Lx    == Lex(Text, TRUE)
Parsed == IF Fmt = "sm" THEN ParseSM(Lx.params) ELSE ParseSSC(Lx.params)
Expect == IF Fmt = "sm" THEN obj ELSE NormSSC(obj)

(* the text is always accepted by the strict parser *)
InvStrictOK == ~InGap => Lx.st = "ok"
(* and has the documented parameter structure *)
InvSerOK == ~InGap => IF Fmt = "sm" THEN SerOK_SM(obj, Lx.params) ELSE SerOK_SSC(obj, Lx.params)
(* parsing it gives back the object (SSC: note data moved last) *)
InvRoundTrip == ~InGap => LET P == Parsed IN
                          /\ P.st = "ok"
                          /\ [items |-> P.items, charts |-> P.charts] = Expect
(* serializing the result again reproduces the text *)
InvStable == ~InGap => LET P == Parsed  o2 == [items |-> P.items, charts |-> P.charts] IN
                       (IF Fmt = "sm" THEN SerSM(o2) ELSE SerSSC(o2)) = Text
(* auto-detection *)
InvDetect == ~InGap => LET lx0 == Lx IN
                       /\ (Fmt = "sm" /\ ~(obj.items # <<>> /\ obj.items[1].k = K_VERSION))
                            => Detect("anon", <<>>, lx0.params) = "sm"
                       /\ (Fmt = "ssc" /\ obj.items # <<>> /\ obj.items[1].k = K_VERSION)
                            => Detect("anon", <<>>, lx0.params) = "ssc"
(* no SSC chart property is dropped or renamed, whatever values are equal *)
InvNoDrop == (Fmt = "ssc" /\ ~InGap) =>
               LET pc == Parsed.charts IN
               /\ Len(pc) = Len(obj.charts)
               /\ \A j \in DOMAIN obj.charts :
                    LET pj == pc[j] IN
                    /\ Len(pj) = Len(obj.charts[j])
                    /\ \A i \in DOMAIN obj.charts[j] :
                         /\ MHas(pj, obj.charts[j][i].k)
                         /\ MGet(pj, obj.charts[j][i].k) = obj.charts[j][i].v
(* chart-level entry point: SSCChart.from_str(str(chart)) *)
InvChartFromStr == (Fmt = "ssc" /\ ~InGap) =>
               \A j \in DOMAIN obj.charts :
                  LET r == ParseSSCChart(Lex(SSCChartText(obj.charts[j]), TRUE).params)
                  IN r.st = "ok" /\ r.chart = NormChart(obj.charts[j])
(* the domain predicate is conservative, never wrong: whenever the round trip *)
(* fails at text level the object is in the excluded set (vacuity guard is    *)
(* the coverage of InGap = FALSE states, counted by the harness)              *)
Emit == DoEmit => PrintT(ToJson([obj |-> obj, gap |-> InGap,
                                 text |-> IF InGap THEN <<>> ELSE Text,
                                 params |-> IF InGap THEN <<>> ELSE Lx.params]))
=============================================================================
