"""Shared by C09 (group_notes / counting) and C10 (ungroup_notes)."""
import itertools
import json
import random

from harness import core, tlc, trace
from . import notedata_common as nc

DIRS = ["grouping"]
POL = ["raise", "keep", "drop"]
MODES = ["separate", "all", "bytype"]
KINDS5 = [0, 49, 50, 51, 77]            # empty, tap, hold head, tail, mine
ALLT = [ord(c) for c in "1234AFKLM"]


def enums():
    from simfile.notes.group import OrphanedNotes, SameBeatNotes
    pol = {"raise": OrphanedNotes.RAISE_EXCEPTION, "keep": OrphanedNotes.KEEP_ORPHAN, "drop": OrphanedNotes.DROP_ORPHAN}
    mode = {"separate": SameBeatNotes.KEEP_SEPARATE, "all": SameBeatNotes.JOIN_ALL, "bytype": SameBeatNotes.JOIN_BY_NOTE_TYPE}
    return pol, mode


def note_of(d):
    if d["k"] <= -1000:       # a player other than 0, carried in the keysound field as pitem() does (the rules never look at either)
        return nc.build_note({**d, "p": -1000 - d["k"], "k": -1})
    return nc.build_note({"p": 0, **d})


def pnote(x):
    d = nc.proj_note(x)
    if d["p"] != 0:
        d["k"] = -1000 - d["p"]          # as pitem(): a player other than 0 travels in the keysound field
    del d["p"]
    return d


def pitem(x):
    from simfile.notes.group import NoteWithTail
    from fractions import Fraction
    b = Fraction(x.beat)
    d = {"n": b.numerator, "d": b.denominator, "c": x.column, "t": ord(x.note_type.value),
         "k": -1 if x.keysound_index is None else x.keysound_index, "tn": -1, "td": 1}
    if isinstance(x, NoteWithTail):
        tb = Fraction(x.tail_beat)
        d["tn"], d["td"] = tb.numerator, tb.denominator
    if getattr(x, "player", 0) != 0:
        d["k"] = -1000 - x.player          # a player invented out of nothing shows up as a keysound mismatch
    return d


def types_of(codes):
    from simfile.notes import NoteType
    return frozenset(NoteType(chr(c)) for c in codes)


def call_group(notes, types, mode, join, oh, ot, with_ungroup, chk=True):
    """one group_notes call (+ the three ungroup policies on its output)"""
    from simfile.notes.group import group_notes, ungroup_notes, OrphanedNoteException
    pol, md = enums()
    c = {"f": "group", "types": sorted(types), "mode": mode, "join": join, "oh": oh, "ot": ot, "chk": chk,
         "st": "ok", "groups": [], "named": [], "un": []}
    try:
        groups = [list(g) for g in group_notes(iter(notes), include_note_types=types_of(types), same_beat_notes=md[mode],
                                               join_heads_to_tails=join, orphaned_head=pol[oh], orphaned_tail=pol[ot])]
    except OrphanedNoteException as e:
        c["st"] = "OrphanedNoteException"
        if e.args and hasattr(e.args[0], "beat"):
            c["named"] = [pnote(e.args[0])]
        return c
    except Exception as e:  # noqa
        c["st"] = type(e).__name__
        return c
    c["groups"] = [[pitem(x) for x in g] for g in groups]
    if with_ungroup:
        for p in POL:
            try:
                out = list(ungroup_notes(groups, orphaned_notes=pol[p]))
                c["un"].append({"pol": p, "st": "ok", "notes": [pitem_plain(x) for x in out]})
            except Exception as e:  # noqa
                c["un"].append({"pol": p, "st": type(e).__name__, "notes": []})
    return c


def pitem_plain(x):
    d = pitem(x)
    return {k: d[k] for k in ("n", "d", "c", "t", "k")}


def call_count(notes, which, types=None, mode="all", minimum=1, oh="raise", ot="raise"):
    from simfile.notes import count as cnt
    pol, md = enums()
    c = {"f": "count", "which": which, "types": sorted(types or []), "mode": mode, "minimum": minimum, "oh": oh, "ot": ot,
         "st": "ok", "count": 0}
    try:
        if which == "mines":
            c["count"] = cnt.count_mines(iter(notes))
        elif which in ("holds", "rolls"):
            fn = cnt.count_holds if which == "holds" else cnt.count_rolls
            c["count"] = fn(iter(notes), orphaned_head=pol[oh], orphaned_tail=pol[ot])
        elif which == "steps":
            c["count"] = cnt.count_steps(iter(notes), include_note_types=types_of(types), same_beat_notes=md[mode], same_beat_minimum=minimum)
        elif which == "jumps":
            c["minimum"] = 2
            c["count"] = cnt.count_jumps(iter(notes), include_note_types=types_of(types), same_beat_notes=md[mode])
        elif which == "hands":
            c["count"] = cnt.count_hands(iter(notes), include_note_types=types_of(types), same_beat_notes=md[mode], same_beat_minimum=minimum)
        elif which == "steps-default":
            c["which"] = "steps"
            c["types"] = sorted(ord(x) for x in "124L")
            c["mode"], c["minimum"] = "all", 1
            c["count"] = cnt.count_steps(iter(notes))
        elif which == "jumps-default":
            c["which"] = "jumps"
            c["types"] = sorted(ord(x) for x in "124L")
            c["mode"], c["minimum"] = "all", 2
            c["count"] = cnt.count_jumps(iter(notes))
        elif which == "hands-default":
            c["which"] = "hands"
            c["types"] = sorted(ord(x) for x in "124L")
            c["mode"], c["minimum"] = "all", 3
            c["count"] = cnt.count_hands(iter(notes))
    except Exception as e:  # noqa
        c["st"] = type(e).__name__
    return c


def grid_streams(rows, cols, kinds):
    """every stream on the grid, as lists of note dicts (row-major = position-sorted)"""
    for cells in itertools.product(kinds, repeat=rows * cols):
        yield [{"n": i // cols, "d": 1, "c": i % cols, "t": t, "k": -1} for i, t in enumerate(cells) if t]


def all_group_options(type_universe):
    """the full option space on a type universe: every subset of types x modes x join off / 9 policies"""
    subsets = []
    for r in range(len(type_universe) + 1):
        subsets += [list(s) for s in itertools.combinations(type_universe, r)]
    out = []
    for ts in subsets:
        for mode in MODES:
            out.append((ts, mode, False, "raise", "raise"))
            for oh in POL:
                for ot in POL:
                    out.append((ts, mode, True, oh, ot))
    return out


def gen_stream(rng, max_notes=120, players=False):
    """random stream, deliberately ill-formed; players=True: half of the notes belong to players 1 / 2 (a merged
    routine stream: joining pairs a head with the next tail IN ITS COLUMN, whoever's it is)"""
    cols = rng.randint(1, 6)
    rows = rng.choice([2, 4, 8, 16, 32, 64])
    dens = rng.choice([[1], [1, 2], [1, 2, 4], [3, 4], [48], [64], [96, 192], [256], [5, 7], [384], [48, 64]])
    palette = rng.choice(["123M", "1234M", "1234AFKLM", "23", "243", "12L3", "1234AFKLM", "2K3", "24K33", "2A3F", "2L3M"])
    weights = rng.choice([0.15, 0.3, 0.6])
    from fractions import Fraction
    out = []
    beat = Fraction(0)
    for r in range(rows):
        for c in range(cols):
            if rng.random() < weights and len(out) < max_notes:
                t = rng.choice(palette)
                k = rng.choice([-1, -1, -1, 0, 3, 12]) if t != "3" else -1     # tails carry no keysound (C10's domain)
                if players and rng.random() < 0.5:
                    k = -1000 - rng.choice([1, 2])
                out.append({"n": beat.numerator, "d": beat.denominator, "c": c, "t": ord(t), "k": k})
        beat += Fraction(1, rng.choice(dens))
    return out


def corpus_streams(max_notes):
    """single-player note streams cut from the corpus charts"""
    from simfile.notes import NoteData
    out = []
    for label, text in nc.corpus_charts():
        if "&" in text:
            text = text.split("&")[0]
        notes = [pnote(x) for x in NoteData(text)]
        for i in range(0, len(notes), max_notes):
            out.append(("%s@%d" % (label, i), notes[i:i + max_notes]))
    return out


def validate(ctx, recs):
    return trace.validate(ctx, "Trace_Grouping", DIRS, recs, heap="3g")


def show(notes):
    return " ".join("%s/%s:c%d:%s%s" % (x["n"], x["d"], x["c"], chr(x["t"]), "" if x["k"] < 0 else "[%d]" % x["k"]) for x in notes[:40])
