--------------------------- MODULE Trace_Convert ----------------------------
(* Validates recorded calls of sm_to_ssc / ssc_to_sm.                          *)
(*  r.dir; r.src, r.tmpl [items, charts], r.ctmpl (chart items): projections     *)
(*  BEFORE the call (templates: the caller's, or the library's blank objects);   *)
(*  r.beh: sequence of [kind, b]; r.st / r.key / r.res: outcome;                   *)
(*  r.after: [src, tmpl, ctmpl] projections AFTER the call;                        *)
(*  r.shared: the result shares a mutable object with source or templates, or an   *)
(*  edit of one showed up in another; r.timing / r.notes: the library's own        *)
(*  readers see the same timing data / notes in source and result (sm2ssc);         *)
(*  r.reload: the result's serialization loads back equal; r.back: [st, same]       *)
(*  ssc_to_sm(sm_to_ssc(src)) compared with src.                                    *)
EXTENDS Convert, Json, IOUtils, TLC
VARIABLE i
Recs == ndJsonDeserialize(IOEnv.TRACE_FILE)
N == Len(Recs)

Beh(r) == [k \in {r.beh[x].kind : x \in DOMAIN r.beh} |-> (CHOOSE x \in DOMAIN r.beh : r.beh[x].kind = k).b]
BehF(r) == [k \in {r.beh[x].kind : x \in DOMAIN r.beh} |-> r.beh[CHOOSE x \in DOMAIN r.beh : r.beh[x].kind = k].b]

Clause(r) ==
  LET e == IF r.dir = "ssc2sm" THEN SscToSm(r.src, r.tmpl, r.ctmpl, BehF(r)) ELSE SmToSsc(r.src, r.tmpl, r.ctmpl) IN
  IF r.dir = "ssc2sm" /\ BlankOnlyWarps(r.src) THEN "domain:blank-only-warps"
  ELSE IF r.dir = "ssc2sm" /\ NoneValued(r.src) THEN "domain:key-only-property"
  ELSE IF r.dir = "ssc2sm" /\ e.st = "KeyError" THEN
       (IF r.st = "KeyError" THEN "known:chart-key-not-representable-in-sm" ELSE "outcome")
  ELSE IF r.dir = "sm2ssc" /\ FreezesFinding(r.src) THEN
       (IF r.st = e.st /\ (e.st # "ok" \/ (r.res.items = e.items /\ r.res.charts = e.charts)) THEN
             (IF r.back.ran /\ (r.back.st # "ok" \/ ~r.back.same) THEN "round-trip-differs"      \* (C17: the way back keeps the alias key)
              ELSE IF e.st = "ok" /\ ~r.timing THEN "known:freezes-alias-not-converted" ELSE "")
        ELSE "outcome-or-result")
  ELSE IF r.st # e.st THEN (IF r.st \notin {"ok", "InvalidPropertyException", "NotImplementedError"} THEN "failed-in-another-way" ELSE "outcome")
  ELSE IF e.st = "InvalidPropertyException" /\ r.key # e.key THEN "exception-does-not-name-the-first-offending-property"
  ELSE IF r.after.src # r.src THEN "source-modified"
  ELSE IF r.after.tmpl # r.tmpl \/ r.after.ctmpl # r.ctmpl THEN "template-modified"
  ELSE IF e.st # "ok" THEN ""
  ELSE IF r.res.items # e.items THEN "result-properties"
  ELSE IF r.res.charts # e.charts THEN "result-charts"
  ELSE IF r.shared THEN "result-shares-a-mutable-object"
  ELSE IF r.dir = "sm2ssc" /\ ~r.reload THEN "result-does-not-load-back-equal"
  ELSE IF r.dir = "sm2ssc" /\ ~r.timing THEN "timing-data-differs"
  ELSE IF r.dir = "sm2ssc" /\ ~r.notes THEN "notes-differ"
  ELSE IF r.back.ran /\ (r.back.st # "ok" \/ ~r.back.same) THEN "round-trip-differs"
  ELSE ""

Init == i = 1
Next == i <= N /\ PrintT(ToJson([id |-> Recs[i].id, clause |-> Clause(Recs[i])])) /\ i' = i + 1
Spec == Init /\ [][Next]_i
=============================================================================
