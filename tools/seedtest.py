#!/venv/bin/python
"""Validate a seeded change and run checks against it.

  tools/seedtest.py <src_dir> <seed_id> <property> [--checks C18,C02] [--tier quick] [--keep]

<src_dir> holds patch.diff, demo.py (and optionally notes.md).  Steps, all in a scratch worktree of
/repo's HEAD under /tmp (removed afterwards):
  1. demo.py passes on the clean tree; 2. patch applies; 3. existing suite passes with it (known-flaky
  test ignored); 4. demo.py fails with it; 5. each check is run with VERIF_REPO=<worktree> and its exit
  status recorded.  On success the change is stored as /verif/seeded/<seed_id>/ with meta.json.
"""
import argparse
import json
import os
import shutil
import subprocess
import sys
import time

VERIF = os.path.dirname(os.path.dirname(os.path.abspath(__file__)))
FLAKY = "test_predefined_assets"


def sh(cmd, cwd=None, env=None, timeout=3600):
    p = subprocess.run(cmd, cwd=cwd, env=env, shell=isinstance(cmd, str), stdout=subprocess.PIPE,
                       stderr=subprocess.STDOUT, text=True, timeout=timeout)
    return p.returncode, p.stdout


def main():
    ap = argparse.ArgumentParser()
    ap.add_argument("src")
    ap.add_argument("seed_id")
    ap.add_argument("prop")
    ap.add_argument("--checks", default=None)
    ap.add_argument("--tier", default="quick")
    ap.add_argument("--no-store", action="store_true")
    a = ap.parse_args()
    a.src = os.path.abspath(a.src)
    checks = (a.checks or a.prop).split(",")
    wt = "/tmp/sv_%s_%d" % (a.seed_id.replace("/", "_"), os.getpid())
    rc, out = sh(["git", "-C", "/repo", "worktree", "add", "-q", "--detach", wt, "HEAD"])
    if rc:
        print(out)
        return 2
    meta = {"seed_id": a.seed_id, "property": a.prop, "repo_head": sh("git -C /repo rev-parse --short HEAD")[1].strip(),
            "ran": [], "validated": False, "checks": {}}
    try:
        demo = os.path.join(a.src, "demo.py")
        patch = os.path.join(a.src, "patch.diff")
        shutil.copy(demo, os.path.join(wt, "_seed_demo.py"))
        rc0, out0 = sh(["/venv/bin/python", "-W", "ignore", "_seed_demo.py"], cwd=wt)
        meta["ran"].append("clean tree: demo.py exit %d" % rc0)
        rc, out = sh(["git", "apply", patch], cwd=wt)
        if rc:
            print("patch does not apply:\n" + out)
            meta["ran"].append("git apply failed")
            return 2
        rc1, out1 = sh("/venv/bin/python -m pytest -q -p no:cacheprovider --timeout=900 -x --deselect simfile/tests/test_assets.py::TestAssets::test_predefined_assets 2>&1 | tail -3", cwd=wt)
        suite_ok = " passed" in out1 and " failed" not in out1 and "error" not in out1.lower()
        meta["ran"].append("patched tree: test suite (flaky test deselected): %s" % out1.strip().splitlines()[-1])
        rc2, out2 = sh(["/venv/bin/python", "-W", "ignore", "_seed_demo.py"], cwd=wt)
        meta["ran"].append("patched tree: demo.py exit %d" % rc2)
        meta["validated"] = (rc0 == 0 and suite_ok and rc2 != 0)
        print("clean demo rc=%d | suite ok=%s | patched demo rc=%d => validated=%s" % (rc0, suite_ok, rc2, meta["validated"]))
        if not meta["validated"]:
            print(out0[-500:], out1[-500:], out2[-800:])
        os.remove(os.path.join(wt, "_seed_demo.py"))
        for c in checks:
            env = dict(os.environ, VERIF_REPO=wt, VERIF_EVIDENCE_DIR="/tmp/sv_evidence_%s" % a.seed_id)
            t0 = time.time()
            rc, out = sh(["./check", c, "--tier", a.tier], cwd=VERIF, env=env, timeout=7200)
            lines = [l for l in out.splitlines() if l.startswith(("VIOLATION", "  key=", "  violation classes", "MACHINERY", c + " "))]
            meta["checks"][c] = {"exit": rc, "wall_s": round(time.time() - t0, 1),
                                 "classes": next((l.strip() for l in lines if "violation classes" in l), "")[:600]}
            print("check %s (%s): exit %d in %.0fs" % (c, a.tier, rc, time.time() - t0))
            for l in lines[:7]:
                print("   " + l[:400])
        if not a.no_store and meta["validated"]:
            dst = os.path.join(VERIF, "seeded", a.seed_id)
            os.makedirs(dst, exist_ok=True)
            for f in ("patch.diff", "demo.py", "notes.md"):
                if os.path.exists(os.path.join(a.src, f)) and os.path.realpath(a.src) != os.path.realpath(dst):
                    shutil.copy(os.path.join(a.src, f), os.path.join(dst, f))
            notes = ""
            if os.path.exists(os.path.join(a.src, "notes.md")):
                notes = open(os.path.join(a.src, "notes.md")).read()
            meta["needs"] = "see notes.md (what the change needs in order to manifest)"
            meta["breaks"] = a.prop
            meta["detected_by"] = [c for c, r in meta["checks"].items() if r["exit"] == 1]
            with open(os.path.join(dst, "meta.json"), "w") as f:
                json.dump(meta, f, indent=1)
    finally:
        sh(["git", "-C", "/repo", "worktree", "remove", "--force", wt])
        shutil.rmtree(wt, ignore_errors=True)
    return 0


if __name__ == "__main__":
    sys.exit(main())
