"""C18 — attribute and key views of a simfile or chart never disagree.

(M)   TLC explores MC_Object breadth-first for each object kind x property: every
      reachable mapping, every operation from it, all clauses as invariants.
(S2C) every distinct transition TLC found is replayed on the real object, which is first
      driven to the source state along a shortest path of real operations.
(C2S) random long histories over all known properties are recorded from the real objects
      and validated step by step by Trace_Object.
"""
import json
import random
from collections import deque

from harness import tlc, core

DIRS = ["object"]

# (kind, standard key, alias, unrelated key): every aliased property, one unaliased one,
# and the alias of *another* class used as the unrelated key (SSC has no FREEZES alias).
CONFIGS = [
    ("sm", "STOPS", "FREEZES", "X"),
    ("sm", "BGCHANGES", "ANIMATIONS", "X"),
    ("sm", "TITLE", "", "STOPS"),
    ("ssc", "BGCHANGES", "ANIMATIONS", "X"),
    ("ssc", "STOPS", "", "FREEZES"),
    ("ssc", "VERSION", "", "X"),
    ("sscchart", "NOTES", "NOTES2", "X"),
    ("sscchart", "STEPSTYPE", "", "NOTES"),
    ("sscchart", "CREDIT", "", "NOTES2"),
    ("smchart", "NOTES", "", "X"),
    ("smchart", "STEPSTYPE", "", "NOTES2"),
    ("smchart", "METER", "", "CREDIT"),
]

INVS = ["InvUnique", "InvFrame", "InvAttr", "InvSMChart", "InvReadOnly", "InvRefused", "InvViews"]
ACTIONS = ["GetAttr", "SetAttr", "DelAttr", "GetKey", "SetKey", "DelKey", "Contains", "Iterate"]


def mc_cfg(kind, name, alias, other, vals, emit):
    return ("SPECIFICATION Spec\nCONSTANTS\n Kind = \"%s\"\n Name = \"%s\"\n Alias = \"%s\"\n"
            " Other = \"%s\"\n Vals = {%s}\n DoEmit = %s\n%s\nINVARIANT Emit\n" % (
                kind, name, alias, other, ", ".join('"%s"' % v for v in vals),
                "TRUE" if emit else "FALSE", "\n".join("INVARIANT " + i for i in INVS)))


# ---- the real objects -----------------------------------------------------------------

def make(kind, init_items=None):
    from simfile.sm import SMSimfile, SMChart
    from simfile.ssc import SSCSimfile, SSCChart
    if kind == "sm":
        o = SMSimfile(string="")
    elif kind == "ssc":
        o = SSCSimfile(string="")
    elif kind == "sscchart":
        o = SSCChart()
    else:
        o = SMChart.from_msd([""] * 6)
    if init_items is not None:
        if kind == "smchart":
            for e in init_items:
                o[e["k"]] = e["v"]
        else:
            for e in init_items:
                o[e["k"]] = e["v"]
    return o


def project(obj):
    return [{"k": k, "v": v} for k, v in obj.items()]


def apply_real(obj, o):
    """perform one operation through the public API; returns the spec-level result"""
    op = o["op"]
    try:
        if op == "getattr":
            v = getattr(obj, o["name"].lower())
            return {"st": "ok", "val": [] if v is None else [v]}
        if op == "setattr":
            setattr(obj, o["name"].lower(), o["v"])
            return {"st": "ok", "val": []}
        if op == "delattr":
            delattr(obj, o["name"].lower())
            return {"st": "ok", "val": []}
        if op == "getkey":
            return {"st": "ok", "val": [obj[o["k"]]]}
        if op == "get":
            v = obj.get(o["k"])
            return {"st": "ok", "val": [] if v is None else [v]}
        if op == "setkey":
            obj[o["k"]] = o["v"]
            return {"st": "ok", "val": []}
        if op == "delkey":
            del obj[o["k"]]
            return {"st": "ok", "val": []}
        if op == "pop":
            return {"st": "ok", "val": [obj.pop(o["k"])]}
        if op == "popitem":
            obj.popitem()
            return {"st": "ok", "val": []}
        if op == "update":
            obj.update({o["k"]: "u"})
            return {"st": "ok", "val": []}
        if op == "contains":
            return {"st": "ok", "val": ["true" if o["k"] in obj else "false"]}
        if op == "iterate":
            ks = list(obj)
            if ks != list(obj.keys()) or ks != [k for k, _ in obj.items()]:
                return {"st": "ok", "val": ["<iteration views disagree>"]}
            return {"st": "ok", "val": ks}
    except Exception as e:  # noqa
        return {"st": type(e).__name__, "val": []}
    raise core.MachineryError("unknown op %r" % (o,))


def ser_view(kind, obj):
    """str(obj) read back through msdparser, as component lists; [] if str() is not
    claimed (SSC chart without note data)."""
    from msdparser import parse_msd
    if kind == "sscchart" and "NOTES" not in obj and "NOTES2" not in obj:
        try:
            str(obj)            # (not claimed - but whatever this attempt does must not leak into later serializations)
        except Exception:  # noqa
            pass
        return []
    try:
        text = str(obj)
        params = [list(p.components) for p in parse_msd(string=text)]
    except Exception as e:  # noqa
        return [[["<str() raised %s>" % type(e).__name__]]]
    if kind in ("sm", "ssc") and getattr(obj, "charts", None):
        # the simfile's own parameters are those before its charts' (SM: one NOTES parameter per chart;
        # SSC: NOTEDATA + one per chart item)
        nchart = sum(1 if kind == "sm" else 1 + len(c) for c in obj.charts)
        params = params[:len(params) - nchart] if nchart <= len(params) else [["<fewer parameters than the charts need>"]]
    if kind == "smchart":
        params = [[c.strip() for c in p[:7]] + p[7:] for p in params]
    return [params]


def rebuild(kind, items):
    return make(kind, items)


def cmp_views(kind, obj, items, rng):
    """equality against (i) an object rebuilt from the same items, (ii) one with one value
    changed, (iii) for dictionaries, one with two keys swapped"""
    out = []
    import copy

    def rebuild(kind, items):              # noqa  (a twin with equal charts, so that only the mapping is compared)
        o = make(kind, items)
        if kind in ("sm", "ssc") and obj.charts:
            o.charts.extend(copy.deepcopy(list(obj.charts)))
        return o
    same = rebuild(kind, items)
    out.append({"other": items, "eq": bool(obj == same) and not bool(obj != same)})
    if items:
        i = rng.randrange(len(items))
        changed = [dict(e) for e in items]
        changed[i]["v"] = changed[i]["v"] + "~"
        out.append({"other": changed, "eq": bool(obj == rebuild(kind, changed))})
    if kind != "smchart" and len(items) >= 2:
        sw = [dict(e) for e in items]
        sw[0], sw[1] = sw[1], sw[0]
        out.append({"other": sw, "eq": bool(obj == rebuild(kind, sw))})
    if kind != "smchart":
        # a twin in which ONE key is spelled the other way (standard <-> legacy alias), same value, same position:
        # a different mapping, so never equal
        pairs = {"STOPS": "FREEZES", "FREEZES": "STOPS", "BGCHANGES": "ANIMATIONS", "ANIMATIONS": "BGCHANGES",
                 "NOTES": "NOTES2", "NOTES2": "NOTES"}
        have = {e["k"] for e in items}
        for i, e in enumerate(items):
            if e["k"] in pairs and pairs[e["k"]] not in have:
                ren = [dict(x) for x in items]
                ren[i]["k"] = pairs[e["k"]]
                out.append({"other": ren, "eq": bool(obj == rebuild(kind, ren)) or not bool(obj != rebuild(kind, ren))})
                out.append({"other": ren, "eq": bool(rebuild(kind, ren) == obj)})
                break
    if kind != "smchart":
        # a twin with one key MORE and one with one key LESS, compared in both directions
        more = [dict(e) for e in items] + [{"k": "ZZEXTRA", "v": "x"}]
        out.append({"other": more, "eq": bool(obj == rebuild(kind, more))})
        out.append({"other": more, "eq": bool(rebuild(kind, more) == obj)})
        if items:
            j = rng.randrange(len(items))
            less = [dict(e) for i, e in enumerate(items) if i != j]
            out.append({"other": less, "eq": bool(obj == rebuild(kind, less))})
            out.append({"other": less, "eq": bool(rebuild(kind, less) == obj)})
    return out


# ---- S2C ------------------------------------------------------------------------------

def key_of(items):
    return tuple((e["k"], e["v"]) for e in items)


def s2c(ctx, kind, recs, label):
    """walk every emitted transition on the real object"""
    init = None
    edges = {}
    seen = set()
    for r in recs:
        h = json.dumps(r, sort_keys=True)
        if h in seen:      # the emitting constraint runs once per generated (not distinct) state
            continue
        seen.add(h)
        if r["op"]["op"] == "init":
            init = r["items"]
            continue
        edges.setdefault(key_of(r["prev"]), []).append(r)
    if init is None:
        raise core.MachineryError("no initial state emitted for %s" % label)
    # shortest real-operation path to every state
    path = {key_of(init): []}
    q = deque([key_of(init)])
    while q:
        s = q.popleft()
        for r in edges.get(s, []):
            t = key_of(r["items"])
            if t not in path:
                path[t] = path[s] + [r]
                q.append(t)
    rng = random.Random(ctx.seed)
    n = 0
    for s, outs in edges.items():
        if s not in path:
            raise core.MachineryError("emitted state unreachable in %s" % label)
        for r in outs:
            obj = make(kind, init if kind == "smchart" else None)
            ok = True
            for step in path[s] + [r]:
                res = apply_real(obj, step["op"])
                got = project(obj)
                clause = None
                if res != step["res"]:
                    clause = "result: expected %s got %s" % (step["res"], res)
                elif got != step["items"]:
                    clause = "state: expected %s got %s" % (step["items"], got)
                else:
                    sv = ser_view(kind, obj)
                    if step["ser"] and sv != step["ser"]:
                        clause = "serialization: expected %s got %s" % (step["ser"], sv)
                    else:
                        for c in cmp_views(kind, obj, got, rng):
                            exp = (c["other"] == got) if kind != "smchart" else (
                                {e["k"]: e["v"] for e in c["other"]} == {e["k"]: e["v"] for e in got})
                            if c["eq"] != exp:
                                clause = "equality with %s: got %s" % (c["other"], c["eq"])
                if clause:
                    ctx.violation(classify(kind, step, clause),
                                  "%s: after %s, op %s: %s" % (label, [p["op"] for p in path[s]], step["op"], clause),
                                  {"mode": "s2c", "kind": kind, "init": init if kind == "smchart" else [],
                                   "ops": [p["op"] for p in path[s]] + [r["op"]]})
                    ok = False
                    break
            n += 1
            ctx.nontrivial_add((kind, s, json.dumps(r["op"], sort_keys=True)))
    ctx.traces += n
    ctx.evaluations += n
    return n


def classify(kind, step, clause):
    head = clause.split(":")[0]
    return "C18:%s:%s:%s" % (kind, step["op"]["op"] if "op" in step else step["o"]["op"], head)


# ---- C2S ------------------------------------------------------------------------------

ALPH = "abcXYZ019 _-.()é猫ñ𝄞"


def rand_value(rng):
    r = rng.random()
    if r < 0.2:
        return ""
    if r < 0.35:
        return rng.choice("abvw01")
    s = "".join(rng.choice(ALPH) for _ in range(rng.randint(1, 10))).strip()
    return s


def gen_history(rng, kind, known, smfields, steps):
    names = known[kind]
    stdkeys = [n for n, _ in names]
    aliases = [a for _, a in names if a]
    unrelated = ["X", "FOO", "NOTES3", "FREEZES", "ANIMATIONS", "NOTES2", "stops", "Title"]
    obj = make(kind)
    if kind in ("sm", "ssc") and rng.random() < 0.4:
        # a simfile that HAS charts (with and without timing data of their own): what is serialized for the
        # simfile itself must still be exactly its mapping
        from simfile.sm import SMChart
        from simfile.ssc import SSCChart
        for _ in range(rng.randint(1, 2)):
            if kind == "sm":
                obj.charts.append(SMChart.blank())
            else:
                c = SSCChart.blank()
                for ck in rng.sample(["BPMS", "STOPS", "OFFSET", "DISPLAYBPM", "CHARTNAME", "WARPS", "LABELS"], rng.randint(0, 3)):
                    c[ck] = rng.choice(["", "0.000=120.000", "1"])
                c.move_to_end("NOTES")
                obj.charts.append(c)
    init = project(obj)
    out = []
    aliased = [(n, a) for n, a in names if a]
    for _ in range(steps):
        r = rng.random()
        name, alias = rng.choice(aliased) if aliased and rng.random() < 0.4 else rng.choice(names)
        if rng.random() < 0.5:
            k = rng.choice([name] + ([alias] if alias else []))
        else:
            k = rng.choice(stdkeys + aliases + unrelated)
        o = {"op": "", "name": "", "alias": "", "k": "", "v": ""}
        if r < 0.12:
            o.update(op="getattr", name=name, alias=alias)
        elif r < 0.30:
            o.update(op="setattr", name=name, alias=alias, v=rand_value(rng))
        elif r < 0.40:
            o.update(op="delattr", name=name, alias=alias)
        elif r < 0.47:
            o.update(op="getkey", k=k)
        elif r < 0.52:
            o.update(op="get", k=k)
        elif r < 0.72:
            o.update(op="setkey", k=k, v=rand_value(rng))
        elif r < 0.82:
            o.update(op="delkey", k=k)
        elif r < 0.87:
            o.update(op="pop", k=k)
        elif r < 0.94:
            o.update(op="contains", k=k)
        else:
            o.update(op="iterate")
        if kind == "smchart":
            if o["op"] in ("setkey",) and k not in smfields and rng.random() < 0.5:
                o["k"] = rng.choice(smfields)
            if rng.random() < 0.05:
                o = {"op": rng.choice(["popitem", "update"]), "name": "", "alias": "", "k": rng.choice(smfields), "v": ""}
            # a lower-case SM chart key is outside the claimed alphabet (upper-case keys)
            if o["k"] and o["k"].upper() in smfields and o["k"] not in smfields:
                o["k"] = o["k"].upper()
        if kind == "smchart" and o["op"] in ("setkey", "setattr") and o.get("v") and rng.random() < 0.25:
            # a value with blanks around it is stored as it is (only LOADING trims the six fields)
            o["v"] = rng.choice([" ", "\n", "\t", ""]) + o["v"] + rng.choice([" ", "\n", "  ", ""])
        res = apply_real(obj, o)
        items = project(obj)
        # (an SM chart whose fields carry blanks at their ends is outside the serializer's domain - C01: fields equal their strip())
        padded = kind == "smchart" and any(isinstance(e["v"], str) and e["v"] != e["v"].strip() for e in items if e["k"] != "NOTES" or True)
        out.append({"o": o, "res": res, "items": items, "ser": ser_view(kind, obj), "padded": bool(padded),
                    "cmp": cmp_views(kind, obj, items, rng) if rng.random() < 0.2 else []})
    return {"kind": kind, "init": init, "steps": out}


def c2s(ctx, known, smfields, ntraces, steps_lo, steps_hi):
    rng = random.Random(ctx.seed * 7 + 1)
    traces = []
    kinds = ["sm", "ssc", "sscchart", "smchart"]
    for i in range(ntraces):
        t = gen_history(rng, kinds[i % 4], known, smfields, rng.randint(steps_lo, steps_hi))
        t["id"] = i
        traces.append(t)
    validate_traces(ctx, traces)


def validate_traces(ctx, traces):
    parts = core.chunks(traces, 16)
    jobs = []
    for part in parts:
        text = "".join(json.dumps(t, ensure_ascii=True) + "\n" for t in part)
        jobs.append(dict(module="Trace_Object", cfg="SPECIFICATION Spec\n", dirs=DIRS,
                         files={"trace.ndjson": text}, env={"TRACE_FILE": "trace.ndjson"},
                         timeout=1800))
    results = tlc.run_many(jobs)
    verdicts = {}
    for res in results:
        tlc.require_ok(res, "Trace_Object")
        ctx.states += res.distinct
        ctx.transitions += res.generated
        for v in res.printed:
            verdicts[v["id"]] = v
    ctx.tlc_runs.append({"name": "Trace_Object x%d" % len(jobs),
                         "distinct": sum(r.distinct for r in results),
                         "generated": sum(r.generated for r in results)})
    if len(verdicts) != len(traces):
        raise core.MachineryError("trace validation returned %d verdicts for %d traces" % (len(verdicts), len(traces)))
    byid = {t["id"]: t for t in traces}
    for tid, v in sorted(verdicts.items()):
        t = byid[tid]
        ctx.traces += 1
        ctx.evaluations += len(t["steps"])
        if len(t["steps"]) >= 2:
            ctx.nontrivial_add(json.dumps([s["o"] for s in t["steps"]], sort_keys=True))
        if v["t"] == "REJECT":
            step = t["steps"][v["l"] - 1]
            ctx.violation("C18:%s:%s:%s" % (t["kind"], step["o"]["op"], v["clause"]),
                          "recorded history %d rejected at step %d (%s): op %s logged result %s state %s" % (
                              tid, v["l"], v["clause"], step["o"], step["res"], step["items"]),
                          {"mode": "c2s", "kind": t["kind"], "init": t["init"],
                           "ops": [s["o"] for s in t["steps"][:v["l"]]]})
    return verdicts


# ---- entry points -----------------------------------------------------------------------

def tables():
    r = tlc.run("Dump_Object", "INIT Init\nNEXT Next\n", DIRS)
    tlc.require_ok(r, "Dump_Object")
    t = r.printed[0]
    known = {k: [tuple(x) for x in v] for k, v in t["known"].items()}
    # cross-check the documentation table (as transcribed in the spec) against the classes
    from simfile.sm import SMSimfile, SMChart
    from simfile.ssc import SSCSimfile, SSCChart
    cls = {"sm": SMSimfile, "ssc": SSCSimfile, "sscchart": SSCChart, "smchart": SMChart}
    for kind, props in known.items():
        for name, _ in props:
            if not isinstance(getattr(cls[kind], name.lower(), None), property):
                raise core.MachineryError("spec lists %s.%s but the class has no such property" % (kind, name))
    return known, t["smfields"]


def run(ctx):
    known, smfields = tables()
    vals = ["", "v", "w"]
    jobs = [dict(module="MC_Object", cfg=mc_cfg(k, n, a, o, vals, True), dirs=DIRS,
                 workers=1, coverage=True, timeout=900) for (k, n, a, o) in CONFIGS]
    results = tlc.run_many(jobs, parallel=12)
    total_edges = 0
    for (k, n, a, o), res in zip(CONFIGS, results):
        label = "%s/%s" % (k, n)
        if res.invariant_violated:
            ctx.violation("C18:model:%s" % res.invariant_violated,
                          "the specification itself violates %s for %s" % (res.invariant_violated, label),
                          {"mode": "model", "config": [k, n, a, o]})
            continue
        tlc.require_ok(res, "MC_Object " + label)
        ctx.add_tlc("MC_Object " + label, res, coverage_required=ACTIONS)
        total_edges += s2c(ctx, k, res.printed, label)
        if res.printed:
            ctx.sample({"s2c_transition": res.printed[len(res.printed) // 2]})
    ctx.notes["s2c_transitions_replayed"] = total_edges
    if ctx.quick:
        c2s(ctx, known, smfields, 160, 50, 150)
    else:
        c2s(ctx, known, smfields, 1600, 50, 500)
    # whole sessions (load / create, key and attribute edits, chart edits, save, re-open) against System.tla;
    # this check judges the rejections at edit events (the others belong to C04 / C16)
    from . import system_common as sysc
    sessions, verdict = sysc.run_sessions(ctx, 150 if ctx.quick else 3000, ctx.seed + 18)
    sysc.judge(ctx, "C18", sessions, verdict, sysc.EDIT_OPS, "attribute / key views")
    sysc.mc_for(ctx, "C18")          # MC_System: bounded model of whole sessions, every transition replayed on the library
    ctx.exhaustive = True
    ctx.rule = ("S2C: every distinct transition (source mapping, operation) of the bounded Object model "
                "for 12 kind x property configurations, replayed on the real object along a shortest "
                "path; C2S: random histories over all known properties; a case is counted once per "
                "distinct (kind, source state, operation) or distinct operation history")
    ctx.assumptions += [
        "values in the bounded model are {'', 'v', 'w'}; recorded histories use strings without MSD metacharacters (text-level escaping is C01/C02)",
        "msdparser is the tokenizer used to read str(obj) back",
        "lower-case keys on SM charts and SMChart.clear()/move_to_end() are outside the operation alphabet of the property",
    ]


def replay(rec):
    case = rec["case"]
    kind = case["kind"]
    if case.get("mode") == "model":
        print("model-level violation; re-run ./check C18")
        return 1
    obj = make(kind, case.get("init") or None)
    for o in case["ops"]:
        res = apply_real(obj, o)
        print(o, "->", res, project(obj))
    print("str():", ser_view(kind, obj))
    print(rec.get("what"))
    return 1
