#!/bin/sh
# re-run every stored seeded change against its property's check (quick tier) and rewrite its meta.json
cd "$(dirname "$0")/.." || exit 2
for d in seeded/*/; do
  id=$(basename "$d"); prop=${id%%-*}
  [ -f "$d/patch.diff" ] || continue
  out=$(tools/seedtest.py "$d" "$id" "$prop" --checks "${CHECKS_FOR:-$prop}" 2>&1)
  echo "$id: $(echo "$out" | grep -E '^clean demo|^check ' | tr '\n' ' ' | cut -c1-200)"
done
