------------------------------- MODULE Codec --------------------------------
(* How simfile objects are read from and written to MSD parameter lists and  *)
(* text: the documented parse rules (ParseSM / ParseSSC / ParseSSCChart), the *)
(* serialization relation SerOK_SM, SerOK_SSC stated without fixing the padding, the   *)
(* canonical serializer the library uses today (SerSM / SerSSC), and format  *)
(* detection.  Objects:                                                        *)
(*   SM : [items : Seq([k, v]), charts : Seq([fields : Seq(6 texts), extra : Seq(text)])] *)
(*   SSC: [items : Seq([k, v]), charts : Seq(Seq([k, v]))]                     *)
(* texts are Seq(Int) (code points); an absent value is None == <<-1>>.        *)
EXTENDS MSD

K_NOTES == <<78, 79, 84, 69, 83>>
K_NOTES2 == <<78, 79, 84, 69, 83, 50>>
K_NOTEDATA == <<78, 79, 84, 69, 68, 65, 84, 65>>
K_ATTACKS == <<65, 84, 84, 65, 67, 75, 83>>
K_DISPLAYBPM == <<68, 73, 83, 80, 76, 65, 89, 66, 80, 77>>
K_VERSION == <<86, 69, 82, 83, 73, 79, 78>>
MultiValue == {K_ATTACKS, K_DISPLAYBPM}

(* ordered maps (as in Object, over texts) *)
MHas(it, k)  == \E i \in DOMAIN it : it[i].k = k
MIdx(it, k)  == CHOOSE i \in DOMAIN it : it[i].k = k
MGet(it, k)  == it[MIdx(it, k)].v
MPut(it, k, v) == IF MHas(it, k) THEN [it EXCEPT ![MIdx(it, k)].v = v]
                  ELSE Append(it, [k |-> k, v |-> v])
MKeys(it) == {it[i].k : i \in DOMAIN it}
MUnique(it) == \A i, j \in DOMAIN it : it[i].k = it[j].k => i = j

Tail1(p) == Sub(p, 2, Len(p))         \* components after the key

(* the value a parameter contributes: all components for ATTACKS/DISPLAYBPM *)
(* (joined by ':'), the first one otherwise, None for a key-only parameter   *)
ParamValue(ukey, p) ==
  IF Len(p) < 2 THEN None
  ELSE IF ukey \in MultiValue THEN JoinWith(Tail1(p), <<COLON>>)
  ELSE p[2]

-----------------------------------------------------------------------------
(* SM *)
ChartFromMSD(cs) ==     \* cs: the components after "NOTES"
  [fields |-> [i \in 1..6 |-> Strip(cs[i])], extra |-> Sub(cs, 7, Len(cs))]

RECURSIVE ParseSMFrom(_, _, _)
ParseSMFrom(ps, i, acc) ==
  IF i > Len(ps) THEN acc
  ELSE LET p == ps[i]  key == Upper(p[1]) IN
    IF key = K_NOTES THEN
         IF Len(p) - 1 < 6 THEN [acc EXCEPT !.st = "ValueError"]
         ELSE ParseSMFrom(ps, i + 1, [acc EXCEPT !.charts = Append(@, ChartFromMSD(Tail1(p)))])
    ELSE ParseSMFrom(ps, i + 1, [acc EXCEPT !.items = MPut(@, key, ParamValue(key, p))])

ParseSM(ps) == ParseSMFrom(ps, 1, [st |-> "ok", items |-> <<>>, charts |-> <<>>])

(* SSC: every parameter after a NOTEDATA belongs to that chart *)
RECURSIVE ParseSSCFrom(_, _, _)
ParseSSCFrom(ps, i, acc) ==
  IF i > Len(ps) THEN acc
  ELSE LET p == ps[i]  key == Upper(p[1])  v == ParamValue(key, p) IN
    IF key = K_NOTEDATA THEN ParseSSCFrom(ps, i + 1, [acc EXCEPT !.charts = Append(@, <<>>)])
    ELSE IF acc.charts # <<>> THEN ParseSSCFrom(ps, i + 1, [acc EXCEPT !.charts[Len(acc.charts)] = MPut(@, key, v)])
    ELSE ParseSSCFrom(ps, i + 1, [acc EXCEPT !.items = MPut(@, key, v)])

ParseSSC(ps) == ParseSSCFrom(ps, 1, [st |-> "ok", items |-> <<>>, charts |-> <<>>])

(* SSCChart.from_str: first key NOTEDATA (any case); keys are kept as written; *)
(* parsing ends at the NOTES (or NOTES2) parameter                               *)
RECURSIVE ParseSSCChartFrom(_, _, _)
ParseSSCChartFrom(ps, i, acc) ==
  IF i > Len(ps) THEN acc
  ELSE LET p == ps[i]  key == p[1]  acc1 == MPut(acc, key, ParamValue(key, p)) IN
    IF key \in {K_NOTES, K_NOTES2} THEN acc1 ELSE ParseSSCChartFrom(ps, i + 1, acc1)

ParseSSCChart(ps) ==
  IF ps = <<>> THEN [st |-> "empty", chart |-> <<>>]
  ELSE IF Upper(ps[1][1]) # K_NOTEDATA THEN [st |-> "ValueError", chart |-> <<>>]
  ELSE [st |-> "ok", chart |-> ParseSSCChartFrom(ps, 2, <<>>)]

-----------------------------------------------------------------------------
(* SSC chart normal form: the note data item (NOTES, else NOTES2) last *)
ChartNotesKey(c) == IF MHas(c, K_NOTES) THEN K_NOTES ELSE K_NOTES2
ChartHasNotes(c) == MHas(c, K_NOTES) \/ MHas(c, K_NOTES2)
NormChart(c) == IF ~ChartHasNotes(c) THEN c
                ELSE LET nk == ChartNotesKey(c) IN
                     SelectSeq(c, LAMBDA e : e.k # nk) \o <<[k |-> nk, v |-> MGet(c, nk)]>>
NormSSC(o) == [o EXCEPT !.charts = [i \in DOMAIN o.charts |-> NormChart(o.charts[i])]]

-----------------------------------------------------------------------------
(* Serialization, as a relation between an object and a parameter list.      *)
ItemParam(e) == IF IsNone(e.v) THEN <<e.k>>
                ELSE IF e.k \in MultiValue THEN <<e.k>> \o SplitOn(e.v, COLON)
                ELSE <<e.k, e.v>>

SMChartParamOK(ch, p) ==
  /\ Len(p) = 7 + Len(ch.extra)
  /\ p[1] = K_NOTES
  /\ \A f \in 1..6 : Strip(p[1 + f]) = ch.fields[f]
  /\ \A e \in DOMAIN ch.extra : p[7 + e] = ch.extra[e]

SerOK_SM(o, ps) ==
  LET n == Len(o.items) IN
  /\ Len(ps) = n + Len(o.charts)
  /\ \A i \in 1..n : ps[i] = ItemParam(o.items[i])
  /\ \A j \in DOMAIN o.charts : SMChartParamOK(o.charts[j], ps[n + j])

SSCChartParams(c) ==     \* NOTEDATA, every other item in order, then the note data
  LET nk == ChartNotesKey(c)
      rest == SelectSeq(c, LAMBDA e : e.k # nk)
  IN << <<K_NOTEDATA, <<>>>> >> \o [i \in DOMAIN rest |-> ItemParam(rest[i])]
     \o << ItemParam([k |-> nk, v |-> MGet(c, nk)]) >>

SerOK_SSC(o, ps) ==
  ps = [i \in DOMAIN o.items |-> ItemParam(o.items[i])]
       \o Concat([j \in DOMAIN o.charts |-> SSCChartParams(o.charts[j])])

-----------------------------------------------------------------------------
(* The canonical text the library writes today (layout is NOT part of any    *)
(* property; used to generate texts in the bounded model and to state that   *)
(* the design round-trips).                                                   *)
NLtxt == <<LF>>
Pad5 == <<LF, SP, SP, SP, SP, SP>>

SMChartText(ch) ==
  SerParam(<<K_NOTES>> \o [f \in 1..5 |-> Pad5 \o ch.fields[f]]
           \o << NLtxt \o ch.fields[6] \o NLtxt >> \o ch.extra)

SerSM(o) ==
  Concat([i \in DOMAIN o.items |-> SerParam(ItemParam(o.items[i])) \o NLtxt])
  \o NLtxt \o Concat([j \in DOMAIN o.charts |-> SMChartText(o.charts[j]) \o NLtxt])

SSCChartText(c) ==
  LET ps == SSCChartParams(c) IN Concat([i \in DOMAIN ps |-> SerParam(ps[i]) \o NLtxt]) \o NLtxt

SerSSC(o) ==
  Concat([i \in DOMAIN o.items |-> SerParam(ItemParam(o.items[i])) \o NLtxt])
  \o NLtxt \o Concat([j \in DOMAIN o.charts |-> SSCChartText(o.charts[j]) \o NLtxt])

-----------------------------------------------------------------------------
(* Format detection.  entry: "sm_ctor" | "ssc_ctor" | "named" (an open file  *)
(* or filename whose name is `name`) | "anon" (string, stream, iterator).    *)
LastDotSuffix(name) ==        \* text after the last '.', or the whole name
  LET ps == Positions(name, 46) IN
  IF ps = <<>> THEN name ELSE Sub(name, ps[Len(ps)] + 1, Len(name))

FirstKeyIsVersion(ps) == ps # <<>> /\ Upper(ps[1][1]) = K_VERSION

Detect(entry, name, ps) ==
  IF entry = "ssc_ctor" THEN "ssc"
  ELSE IF entry = "sm_ctor" THEN "sm"
  ELSE IF entry = "named" /\ HasChar(name, 46) /\ LastDotSuffix(Lower(name)) = <<115, 115, 99>> THEN "ssc"
  ELSE IF entry = "named" /\ HasChar(name, 46) /\ LastDotSuffix(Lower(name)) = <<115, 109>> THEN "sm"
  ELSE IF FirstKeyIsVersion(ps) THEN "ssc" ELSE "sm"

(* Loading a text: tokenizer outcome, then format, then the parse rules.     *)
(* `alt` is a second acceptable outcome class: when the text has BOTH stray  *)
(* text (strict) and, before it, an SM NOTES parameter with fewer than six   *)
(* components, the property only says "rejected"; the library (a lazy        *)
(* consumer of the tokenizer) raises ValueError first, an eager one would    *)
(* raise the parser's error.  Both are accepted.                              *)
EmptyObj == [items |-> <<>>, charts |-> <<>>]
AltOnLexError(lx, entry, name) ==
  IF lx.st = "MSDParserError" /\ lx.before # <<>> /\ Detect(entry, name, lx.before) = "sm"
     /\ ParseSM(lx.before).st = "ValueError" THEN "ValueError" ELSE lx.st
Load(text, strict, entry, name) ==
  LET lx == Lex(text, strict) IN
  IF lx.st # "ok" THEN [st |-> lx.st, alt |-> AltOnLexError(lx, entry, name), fmt |-> "", obj |-> EmptyObj]
  ELSE LET fmt == Detect(entry, name, lx.params)
           r   == IF fmt = "ssc" THEN ParseSSC(lx.params) ELSE ParseSM(lx.params)
       IN [st |-> r.st, alt |-> r.st, fmt |-> fmt, obj |-> [items |-> r.items, charts |-> r.charts]]

LoadParams(ps, entry, name) ==     \* the same at parameter level (tokenizer trusted)
  LET fmt == Detect(entry, name, ps)
      r   == IF fmt = "ssc" THEN ParseSSC(ps) ELSE ParseSM(ps)
  IN [st |-> r.st, alt |-> r.st, fmt |-> fmt, obj |-> [items |-> r.items, charts |-> r.charts]]

-----------------------------------------------------------------------------
(* Domain predicates of C01/C02 (escaping gaps of the dependency).           *)
ValueInGap(v) == ~IsNone(v) /\ InEscapeGap(v)
SMObjInGap(o) ==
  \/ \E i \in DOMAIN o.items : KeyInGap(o.items[i].k) \/ ValueInGap(o.items[i].v)
  \/ \E j \in DOMAIN o.charts :
       \/ \E f \in 1..6 : InEscapeGap(o.charts[j].fields[f])
       \/ HashAfterNLFrom(o.charts[j].fields[6], 1, TRUE)   \* the serializer puts a line break in front of the note data
       \/ \E e \in DOMAIN o.charts[j].extra : InEscapeGap(o.charts[j].extra[e])
(* A gap the closed form does not mention (known finding, dependency): the serializer ends the  *)
(* note data with a line break, so an EXTRA chart component that begins with '#' (directly or      *)
(* through ':', ';', '\' only) - or follows extra components that leave the tokenizer "after a     *)
(* line break" - starts a new parameter when read back.                                              *)
RECURSIVE ArmAfter(_, _, _)
ArmAfter(v, i, armed) ==      \* is the tokenizer "after a line break" once v has been read?
  IF i > Len(v) THEN armed
  ELSE IF IsNL(v[i]) THEN ArmAfter(v, i + 1, TRUE)
  ELSE IF v[i] \in {COLON, SEMI, BSL} THEN ArmAfter(v, i + 1, armed)
  ELSE ArmAfter(v, i + 1, FALSE)
RECURSIVE ExtraGapFrom(_, _, _)
ExtraGapFrom(ex, e, armed) ==
  IF e > Len(ex) THEN FALSE
  ELSE HashAfterNLFrom(ex[e], 1, armed) \/ ExtraGapFrom(ex, e + 1, ArmAfter(ex[e], 1, armed))
SMExtraGap(o) == \E j \in DOMAIN o.charts : ExtraGapFrom(o.charts[j].extra, 1, TRUE)

(* The same gap through the serializer's own line break between parameters: every parameter but   *)
(* the first of the text is written after a line break, so a key that contains no ordinary          *)
(* character (empty, or made of ':', ';', '\' only - those are written as escapes) leaves the       *)
(* tokenizer "after a line break", and a value beginning with '#' then starts a new parameter.       *)
(* Known finding (dependency); found by TLC at symbol length 4 of MC_Load ('#:#NOTEDATA...').        *)
ItemCtxGap(e, afterNL) == ~IsNone(e.v) /\ HashAfterNLFrom(e.v, 1, ArmAfter(e.k, 1, afterNL))
ItemsCtxGap(items, firstAfterNL) == \E i \in DOMAIN items : ItemCtxGap(items[i], i > 1 \/ firstAfterNL)
ObjCtxGap(o, fmt) ==
  \/ ItemsCtxGap(o.items, FALSE)
  \/ fmt = "ssc" /\ \E j \in DOMAIN o.charts : ItemsCtxGap(o.charts[j], TRUE)

SSCObjInGap(o) ==
  \/ \E i \in DOMAIN o.items : KeyInGap(o.items[i].k) \/ ValueInGap(o.items[i].v)
  \/ \E j \in DOMAIN o.charts : \E i \in DOMAIN o.charts[j] :
       KeyInGap(o.charts[j][i].k) \/ ValueInGap(o.charts[j][i].v)
=============================================================================
