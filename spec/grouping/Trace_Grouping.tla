--------------------------- MODULE Trace_Grouping ---------------------------
(* Validates recorded calls of group_notes / ungroup_notes / count_*.          *)
(* One record = one note stream + a list of calls on it:                       *)
(*  [f |-> "group", types, mode, join, oh, ot, st, groups, un |-> <<[pol, st, notes]>>]  *)
(*  [f |-> "count", which, types, mode, minimum, oh, ot, st, count]             *)
(*  [f |-> "ungroup", items, pol, st, notes]   (hand-built groups)              *)
EXTENDS Grouping, Json, IOUtils, TLC
VARIABLE i
Recs == ndJsonDeserialize(IOEnv.TRACE_FILE)
N == Len(Recs)

TypeSet(seq) == {seq[k] : k \in DOMAIN seq}

UngroupClause(exp, mode, u) ==
  IF u.st # "ok" THEN "ungroup-raised"
  ELSE IF mode # "bytype" /\ u.notes # exp THEN "ungroup-differs"
  ELSE IF ~BagEq(u.notes, exp) THEN "ungroup-different-notes"
  ELSE IF ~NonDecreasingBeats(u.notes) THEN "ungroup-beats-decrease"
  ELSE ""

GroupClause(ns, c) ==
  LET ts == TypeSet(c.types)
      g == Group(ns, ts, c.mode, c.join, c.oh, c.ot) IN
  IF c.st # g.st THEN (IF c.st = "ok" THEN "orphan-not-raised" ELSE IF g.st = "ok" THEN "raised-without-orphan" ELSE "wrong-exception")
  ELSE IF g.st # "ok" THEN (IF c.named = <<>> \/ c.named[1] \in g.orphans THEN "" ELSE "exception-names-a-non-orphan")
  ELSE IF c.chk /\ c.groups # g.groups THEN        \* (chk = FALSE: the record is about ungrouping only)
         (IF Flat(c.groups) = Flat(g.groups) THEN "same-beat-grouping" ELSE "grouped-items")
  ELSE LET exp == ExpectedUngrouped(Included(ns, ts), c.join, c.oh, c.ot)
           bad == {k \in DOMAIN c.un : UngroupClause(exp, c.mode, c.un[k]) # ""} IN
       IF bad = {} THEN "" ELSE UngroupClause(exp, c.mode, c.un[CHOOSE k \in bad : TRUE])

CountClause(ns, c) ==
  IF c.which = "mines" THEN (IF c.st = "ok" /\ c.count = CountMines(ns) THEN "" ELSE "count-mines")
  ELSE IF c.which \in {"holds", "rolls"} THEN
         LET r == CountHeld(ns, IF c.which = "holds" THEN HOLD ELSE ROLL, c.oh, c.ot) IN
         IF c.st # r.st THEN "count-" \o c.which \o "-outcome"
         ELSE IF r.st = "ok" /\ c.count # r.count THEN "count-" \o c.which ELSE ""
  ELSE LET k == CountSteps(ns, TypeSet(c.types), c.mode, c.minimum) IN
       IF c.st = "ok" /\ c.count = k THEN "" ELSE "count-" \o c.which

HandClause(c) ==
  LET u == Ungroup(c.groups, c.pol) IN
  IF c.st # u.st THEN "hand-built-outcome"
  ELSE IF u.st = "ok" /\ c.notes # u.notes THEN "hand-built-notes" ELSE ""

CallClause(ns, c) == CASE c.f = "group" -> GroupClause(ns, c)
                       [] c.f = "count" -> CountClause(ns, c)
                       [] c.f = "ungroup" -> HandClause(c)

Sorted(ns) == \A k \in 1..(Len(ns) - 1) : PosLt(ns[k], ns[k + 1])
Verdict(r) ==
  IF ~Sorted(r.notes) THEN [clause |-> "domain:stream-not-sorted", at |-> 0]
  ELSE LET bad == {k \in DOMAIN r.calls : CallClause(r.notes, r.calls[k]) # ""} IN
       IF bad = {} THEN [clause |-> "", at |-> 0]
       ELSE LET k == CHOOSE k \in bad : \A x \in bad : k <= x IN [clause |-> CallClause(r.notes, r.calls[k]), at |-> k]

Init == i = 1
Next == i <= N /\ LET v == Verdict(Recs[i]) IN PrintT(ToJson([id |-> Recs[i].id, clause |-> v.clause, at |-> v.at])) /\ i' = i + 1
Spec == Init /\ [][Next]_i
=============================================================================
