"""C14 — beats are exact fractions that snap to the 1/48 grid only from inexact input.

(M)   MC_Beat "str": every tick of the +-2000-beat range (in chunks): the three-decimal form reads back as
      the same tick, is strictly increasing (injective), within half a thousandth, and periodic
      (Str3(k+48) = Str3(k)+1000, which extends the claims to the whole grid).  MC_Beat "arith": every pair
      of small rationals under every operator incl. reflected ones: closed, lowest terms, algebraic identities.
(S2C) every tick's real str()/from_str() against TLC's thousandths; every emitted (op, a, b) on real Beat
      objects (Beat, int and Fraction operands) against TLC's exact result and type.
(C2S) random ticks up to +-1e7 beats (via the periodicity lemma), floats that are exact binary fractions,
      decimals and decimal strings, fraction pairs with denominators up to 1000 under all operators, event
      lists with up to six decimal places, timing strings with blanks and line breaks through BeatValues
      and TimingData; validated record by record by Trace_Beat.
"""
import json
import operator
import random
from decimal import Decimal
from fractions import Fraction

from harness import tlc, core, trace
from harness.core import cps, uncps

DIRS = ["beat"]
OPS = ["add", "sub", "mul", "div", "mod", "floordiv", "neg", "pos", "abs", "radd", "rsub", "rmul", "rdiv", "rmod"]


def mc_cfg(mode, starts, chunk, nums, dens, invs):
    return ("SPECIFICATION Spec\nCONSTANTS\n Mode = \"%s\"\n ChunkStarts = {%s}\n ChunkLen = %d\n NumMax = %d\n Dens = {%s}\n DoEmit = TRUE\n%sINVARIANT Emit\n" % (
        mode, ",".join(map(str, starts)), chunk, nums, ",".join(map(str, dens)), "".join("INVARIANT %s\n" % i for i in invs)))


def beat(r):
    from simfile.timing import Beat
    return Beat(r[0], r[1])


def rat(x):
    f = Fraction(x)
    return [f.numerator, f.denominator]


def apply_real(op, a, b):
    """-> (value, type is Beat) ; raises ZeroDivisionError"""
    from simfile.timing import Beat
    fn = {"add": lambda: a + b, "sub": lambda: a - b, "mul": lambda: a * b, "div": lambda: a / b, "mod": lambda: a % b,
          "floordiv": lambda: a // b, "neg": lambda: -a, "pos": lambda: +a, "abs": lambda: abs(a),
          "radd": lambda: b + a, "rsub": lambda: b - a, "rmul": lambda: b * a, "rdiv": lambda: b / a, "rmod": lambda: b % a}[op]
    v = fn()
    return v, isinstance(v, Beat) or op == "floordiv"


def str_parts(b):
    s = str(b)
    neg = s.startswith("-")
    ip, fp = s.lstrip("-").split(".")
    return neg, int(ip), int(fp), len(fp)


def s2c_str_job(rec):
    from simfile.timing import Beat
    bad = []
    for i, th in enumerate(rec["strs"]):
        k = abs(rec["k0"] + i)
        for sign in (1, -1):
            b = Beat(sign * k, 48)
            neg, ip, fp, nd = str_parts(b)
            if nd != 3 or ip * 1000 + fp != th or (neg != (sign < 0 and th != 0)):
                bad.append(("three-decimal-form", "str(Beat(%d, 48)) = %r, TLC expects %d thousandths" % (sign * k, str(b), th)))
                break
            if Beat.from_str(str(b)) != b:
                bad.append(("from-str", "Beat.from_str(%r) = %r != Beat(%d, 48)" % (str(b), Beat.from_str(str(b)), sign * k)))
                break
        if bad:
            break
    return len(rec["strs"]) * 2, bad


def s2c_arith_job(rec):
    from simfile.timing import Beat
    a = beat(rec["a"])
    out = []
    bf = Fraction(rec["b"][0], rec["b"][1])
    variants = [("Beat", beat(rec["b"])), ("Fraction", bf)]
    if bf.denominator == 1:
        variants.append(("int", int(bf)))
    n = 0
    for name, b in variants:
        if rec["op"].startswith("r") and name == "Beat":
            continue
        n += 1
        try:
            v, isb = apply_real(rec["op"], a, b)
            raised = False
        except ZeroDivisionError:
            v, isb, raised = None, True, True
        if not rec["defined"]:
            if not raised:
                out.append(("division-by-zero-not-raised", "%s %s %s(%s) did not raise" % (a, rec["op"], name, b)))
            continue
        if raised:
            out.append(("arithmetic-raised", "%s %s %s(%s) raised" % (a, rec["op"], name, b)))
        elif rat(v) != rec["r"]:
            out.append(("arithmetic-value", "Beat(%s) %s %s(%s) = %s, TLC expects %s" % (a, rec["op"], name, b, v, rec["r"])))
        elif not isb:
            out.append(("arithmetic-result-is-not-a-beat", "Beat(%s) %s %s(%s) has type %s" % (a, rec["op"], name, b, type(v).__name__)))
    return n, out


def pevs(bv):
    out = []
    for e in bv:
        f = Fraction(e.beat)
        t = e.value.as_tuple()
        if not isinstance(t.exponent, int):
            return None
        m = int("".join(map(str, t.digits))) * (-1 if t.sign else 1)
        ex = -t.exponent
        if ex < 0:
            m, ex = m * 10 ** (-ex), 0
        if abs(m) >= 2 ** 31 or ex > 9:
            return None
        out.append({"n": f.numerator, "d": f.denominator, "m": m, "e": ex})
    return out


def c2s_records(rng, n):
    from simfile.timing import Beat, BeatValues, TimingData
    from simfile.ssc import SSCSimfile
    recs = []

    def add(r):
        r["id"] = len(recs)
        recs.append(r)
    for _ in range(n):
        r = rng.random()
        if r < 0.12:
            k = rng.choice([rng.randint(-96000, 96000), rng.randint(-48 * 10 ** 7, 48 * 10 ** 7)])
            b = Beat(k, 48)
            neg, ip, fp, nd = str_parts(b)
            w, rem = divmod(abs(k), 48)
            add({"t": "str", "w": w, "r": rem, "sgn": k < 0, "neg": neg, "ip": ip, "fp": fp if nd == 3 else -1})
            if abs(k) <= 19200:           # larger mantissas do not fit TLC's integers; the harness compares those itself below
                add({"t": "fromstr", "text": cps(str(b)), "got": rat(Beat.from_str(str(b)))})
        elif r < 0.17:
            # the same VALUE back to back as an exact rational and as a decimal / float / string, in either
            # order: what one construction leaves behind must not decide the other (rationals stay exact,
            # inexact input snaps to the tick)
            if rng.random() < 0.5:
                places = rng.randint(1, 4)
                q = Fraction(rng.randint(-300 * 10 ** places, 300 * 10 ** places), 10 ** places)
                sx = "%s%d.%0*d" % ("-" if q < 0 else "", abs(q.numerator * (10 ** places // q.denominator)) // 10 ** places, places,
                                    abs(q.numerator * (10 ** places // q.denominator)) % 10 ** places)
                forms = [("inexact", lambda: Beat(Decimal(sx))), ("inexact", lambda: Beat(sx))]
                if float(sx) == q:
                    forms.append(("inexact", lambda: Beat(float(sx))))
            else:
                j = rng.randint(1, 10)
                q = Fraction(rng.randint(-300 * 2 ** j, 300 * 2 ** j), 2 ** j)
                forms = [("inexact", lambda: Beat(float(q))), ("inexact", lambda: Beat(Decimal(q.numerator) / Decimal(q.denominator)))]
            forms += [("exact", lambda: Beat(q)), ("exact", lambda: Beat(q.numerator, q.denominator)), ("exact", lambda: Beat(Fraction(q)))]
            seq = [rng.choice(forms) for _ in range(rng.randint(2, 4))]
            if len({k for k, _ in seq}) == 1:
                seq.append(rng.choice([f for f in forms if f[0] != seq[0][0]]))
            for kind, make in seq:
                add({"t": kind, "inp": rat(q), "got": rat(make())})
        elif r < 0.195:
            # decimal strings with 4-6 places a hair off the MIDPOINT between two ticks (odd multiples of 1/96)
            places = rng.randint(4, 6)
            mid = Fraction(2 * rng.randint(0, (400 if places < 6 else 40) * 48) + 1, 96)      # (mantissa x 48 must fit TLC's integers)
            m = int(mid * 10 ** places) + rng.choice([-2, -1, 0, 1, 2, 3])
            if m < 0 or abs(m) >= 2 ** 31:
                continue
            sx = "%d.%0*d" % (m // 10 ** places, places, m % 10 ** places)
            via = rng.randrange(3)
            if via == 0:
                add({"t": "fromstr", "text": cps(sx), "got": rat(Beat.from_str(sx))})
            elif via == 1:
                add({"t": "inexact", "inp": rat(Fraction(sx)), "got": rat(Beat(sx))})
            else:
                bv = BeatValues.from_str("0.000=120.000,\n" + sx + "=150.000\n")
                add({"t": "fromstr", "text": cps(sx), "got": rat(Fraction(bv[1].beat))})
        elif r < 0.205:
            # decimal strings in exponent form ('33e-2', '5E-1', '1.25e1', '7e0'): still decimal strings, still snapped
            mant = rng.choice(["%d" % rng.randint(1, 4000), "%d.%d" % (rng.randint(0, 300), rng.randint(0, 999)), "-%d" % rng.randint(1, 999)])
            sx = mant + rng.choice(["e", "E"]) + rng.choice(["-1", "-2", "-3", "0", "1", "+1", "-4"])
            try:
                fx = Fraction(sx)
            except ValueError:
                continue
            if fx.denominator > 10 ** 6 or abs(fx) > (400 if fx.denominator <= 10 ** 5 else 40):      # (the spec's cross-multiplications must fit TLC's integers)
                continue
            how = rng.randrange(3)
            if how == 0:
                add({"t": "inexact", "inp": rat(fx), "got": rat(Beat(sx))})
            elif how == 1:
                add({"t": "inexact", "inp": rat(fx), "got": rat(Beat.from_str(sx))})
            else:
                add({"t": "inexact", "inp": rat(fx), "got": rat(Beat(Decimal(sx)))})
        elif r < 0.22:
            nn, dd = rng.randint(-3000, 3000), rng.randint(1, 1000)
            how = rng.random()
            if how < 0.4:
                if rng.random() < 0.3:
                    dd = -dd                                    # a pair is exactly that rational, whatever the signs
                got = Beat(nn, dd)
            elif how < 0.7:
                got = Beat(Fraction(nn, dd))
            else:
                nn, dd = rng.randint(-10 ** 6, 10 ** 6), 1
                got = Beat(nn)
            add({"t": "exact", "inp": [nn, dd], "got": rat(got)})
        elif r < 0.40:
            how = rng.random()
            if how < 0.35:
                j = rng.randint(0, 10)
                m = rng.randint(-400 * 2 ** j, 400 * 2 ** j)
                x = m / 2 ** j                                  # an exact binary fraction
                got, inp = Beat(x), rat(Fraction(x))
            elif how < 0.7:
                places = rng.randint(0, 5)
                m = rng.randint(-400 * 10 ** places, 400 * 10 ** places)
                sx = "%s%d" % ("-" if m < 0 else "", abs(m)) if places == 0 else "%s%d.%0*d" % ("-" if m < 0 else "", abs(m) // 10 ** places, places, abs(m) % 10 ** places)
                if rng.random() < 0.5:
                    got = Beat(sx)
                else:
                    got = Beat(Decimal(sx))
                inp = rat(Fraction(sx))
            else:
                places = rng.randint(0, 5)
                m = rng.randint(0, 400 * 10 ** places)
                sx = "%d.%0*d" % (m // 10 ** places, places, m % 10 ** places) if places else str(m)
                sx = rng.choice(["", " ", "+"]) + sx
                add({"t": "fromstr", "text": cps(sx), "got": rat(Beat.from_str(sx))})
                continue
            add({"t": "inexact", "inp": inp, "got": rat(got)})
        elif r < 0.75:
            op = rng.choice(OPS)
            a = Fraction(rng.randint(-1500, 1500), rng.randint(1, 1000))
            bq = Fraction(rng.randint(-1500, 1500), rng.randint(1, 1000)) if rng.random() < 0.8 else Fraction(rng.randint(-5, 5))
            if rng.random() < 0.1:
                bq = Fraction(0)
            kind = rng.choice(["Beat", "Fraction", "int"]) if bq.denominator == 1 else rng.choice(["Beat", "Fraction"])
            if op.startswith("r") and kind == "Beat":
                kind = "Fraction"
            bv = Beat(bq) if kind == "Beat" else (int(bq) if kind == "int" else bq)
            try:
                v, isb = apply_real(op, Beat(a), bv)
                add({"t": "op", "op": op, "a": rat(a), "b": rat(bq), "got": rat(v), "isbeat": bool(isb), "raised": False})
            except ZeroDivisionError:
                add({"t": "op", "op": op, "a": rat(a), "b": rat(bq), "got": [0, 1], "isbeat": True, "raised": True})
        else:
            rows = []
            for _ in range(rng.choice([0, 1, 2, 3, 6])):
                bp = rng.randint(0, 5)
                bm = rng.randint(0, 300 * 10 ** bp)
                bs = "%d.%0*d" % (bm // 10 ** bp, bp, bm % 10 ** bp) if bp else str(bm)
                if rows and rng.random() < 0.25:              # two rows on one tick: the same beat again, or a hair off it
                    prev = rows[rng.randrange(len(rows))].strip().split("=")[0]
                    bs = prev if rng.random() < 0.5 else ("%.3f" % (float(prev) + rng.choice([0.001, 0.002, -0.001]))).lstrip("-")
                vp = rng.randint(0, 6)
                vm = rng.randint(-999 * 10 ** vp, 999 * 10 ** vp)
                vs = ("-" if vm < 0 else "") + ("%d.%0*d" % (abs(vm) // 10 ** vp, vp, abs(vm) % 10 ** vp) if vp else str(abs(vm)))
                pad = lambda: rng.choice(["", "", " ", "\n", "\r\n", "\t"])      # noqa
                rows.append(pad() + bs + "=" + vs + pad())
            text = ",".join(rows)
            if rng.random() < 0.1:
                text = rng.choice(["", " ", "\n"])
            via = rng.random()
            try:
                if via < 0.6:
                    bv = BeatValues.from_str(text)
                else:
                    from simfile.sm import SMSimfile
                    sf = SSCSimfile.blank() if rng.random() < 0.5 else SMSimfile.blank()
                    key = rng.choice(["bpms", "stops", "delays", "warps"])
                    sf["BPMS"] = "0=120"
                    if "VERSION" in sf and rng.random() < 0.5:
                        # whatever VERSION says, the strings reach the engine as they are written
                        v = rng.choice(["0.69", "0.5", "0.7", "0.83", "1", "", None])
                        if v is None:
                            del sf["VERSION"]
                        else:
                            sf["VERSION"] = v
                    sf[key.upper()] = text          # (an SM simfile can carry DELAYS / WARPS keys too)
                    if key == "bpms" and not text.strip():
                        continue
                    bv = getattr(TimingData(sf), key)
                evs = pevs(bv)
                if evs is None:
                    continue
                printed = str(bv)
                again = pevs(BeatValues.from_str(printed))
                add({"t": "events", "text": cps(text), "st": "ok", "evs": evs, "printed": cps(printed), "again": again})
                if len(bv) and rng.random() < 0.5:
                    # the SAME list object, written once already, then changed through one of the list's own methods and
                    # written again: the text is always the text of the list as it is now
                    how = rng.randrange(6)
                    if how == 0:
                        bv += [bv[0]]
                    elif how == 1:
                        bv.reverse()
                    elif how == 2:
                        bv.sort(key=lambda e: (e.value, e.beat))
                    elif how == 3:
                        bv *= 2
                    elif how == 4:
                        bv.data.pop()
                    else:
                        bv.append(bv[-1])
                    evs2 = pevs(bv)
                    printed2 = str(bv)
                    if evs2 is not None:
                        add({"t": "events", "text": cps(printed2), "st": "ok", "evs": evs2, "printed": cps(printed2),
                             "again": pevs(BeatValues.from_str(printed2))})
            except Exception as e:  # noqa
                add({"t": "events", "text": cps(text), "st": type(e).__name__, "evs": [], "printed": [], "again": []})
    return recs


def run(ctx):
    quick = ctx.quick
    starts = list(range(0, 96001, 1000))
    res = tlc.run(module="MC_Beat", cfg=mc_cfg("str", starts, 1000, 0, [1], ["InvStrRoundTrip", "InvStrIncreasing", "InvStrClose", "InvPeriod"]),
                  dirs=DIRS, workers=16, timeout=3000, heap="4g")
    if res.invariant_violated:
        ctx.violation("C14:model:" + res.invariant_violated, "the three-decimal form violates %s:\n%s" % (res.invariant_violated, (res.error_text or "")[:1500]), {"mode": "model"})
    else:
        tlc.require_ok(res, "MC_Beat str")
        ctx.add_tlc("MC_Beat/str", res)
        chunks = {r["k0"]: r for r in res.printed}
        for (n, bad), rec in zip(core.pmap(s2c_str_job, list(chunks.values()), chunk=4), chunks.values()):
            ctx.traces += n
            ctx.evaluations += n
            for key, what in bad:
                ctx.violation("C14:" + key, what, {"mode": "str", "k0": rec["k0"]})
        ctx.notes["s2c_ticks_checked_exhaustively"] = sum(len(r["strs"]) for r in chunks.values()) * 2
        ctx.sample({"s2c_str": {"tick": 1000 + 5, "tlc_thousandths": chunks[1000]["strs"][5]}})
    nums = 4 if quick else 6
    dens = [1, 2, 3, 48] if quick else [1, 2, 3, 4, 5, 48]
    res = tlc.run(module="MC_Beat", cfg=mc_cfg("arith", [0], 1, nums, dens, ["InvClosed", "InvIdentities"]), dirs=DIRS, workers=16, timeout=3000, heap="4g")
    if res.invariant_violated:
        ctx.violation("C14:model:" + res.invariant_violated, "exact arithmetic violates %s:\n%s" % (res.invariant_violated, (res.error_text or "")[:1500]), {"mode": "model"})
    else:
        tlc.require_ok(res, "MC_Beat arith")
        ctx.add_tlc("MC_Beat/arith", res)
        seen = {}
        for r in res.printed:
            seen[json.dumps([r["a"], r["b"], r["op"]])] = r
        cases = list(seen.values())
        for (n, bad), rec in zip(core.pmap(s2c_arith_job, cases, chunk=500), cases):
            ctx.traces += n
            ctx.evaluations += n
            ctx.nontrivial_add(("arith", json.dumps([rec["a"], rec["b"], rec["op"]])))
            for key, what in bad:
                ctx.violation("C14:" + key, what, {"mode": "arith", "a": rec["a"], "b": rec["b"], "op": rec["op"]})
        ctx.sample({"s2c_arith": cases[len(cases) // 3]})
    rng = random.Random(ctx.seed * 29 + 1)
    recs = c2s_records(rng, 6000 if quick else 150000)
    verdict = trace.validate(ctx, "Trace_Beat", DIRS, recs)
    for r in recs:
        cl = verdict[r["id"]]["clause"]
        ctx.traces += 1
        ctx.evaluations += 1
        if cl.startswith("domain:"):
            ctx.notes["excluded_by_spec_domain_predicate"] = ctx.notes.get("excluded_by_spec_domain_predicate", 0) + 1
            continue
        ctx.nontrivial_add(json.dumps({k: v for k, v in r.items() if k != "id"}, sort_keys=True))
        if cl:
            shown = {k: (uncps(v) if k in ("text", "printed") else v) for k, v in r.items()}
            ctx.violation("C14:" + cl, "recorded %s rejected (%s): %s" % (r["t"], cl, json.dumps(shown)[:700]), {"mode": "record", "record": r})
    ctx.notes["c2s_records"] = len(recs)
    ctx.sample({"c2s": {k: (uncps(v) if k in ("text", "printed") else v) for k, v in recs[-1].items()}})
    # whole sessions against System.tla: this check judges the rejections at the "readtiming" event
    from . import system_common as sysc
    sessions, sverdict = sysc.run_sessions(ctx, 150 if ctx.quick else 3000, ctx.seed + 14)
    sysc.judge(ctx, "C14", sessions, sverdict, {"readtiming"}, "reading timing lists inside a session")
    sysc.mc_for(ctx, "C14")          # MC_System: bounded model of whole sessions, every transition replayed on the library
    ctx.notes["sessions_with_a_readtiming_event"] = sum(1 for s_ in sessions if any(e["op"] == "readtiming" for e in s_["events"]))
    ctx.exhaustive = True
    ctx.rule = ("S2C: every tick within +-2000 beats (str / from_str) and every (a, op, b) of the bounded arithmetic model x operand types; "
                "C2S: one evaluation per recorded construction / conversion / operation / event list; distinct = distinct record")
    ctx.assumptions += [
        "TLC integers are 32-bit: inexact inputs are exact binary fractions m/2^j (j <= 10) and decimals with <= 5 places within +-400 beats; "
        "larger ticks use the periodicity lemma Str3(k+48) = Str3(k)+1000 (checked by TLC on the whole +-2000-beat range)",
        "arbitrary binary floats (whose exact value needs more than 32 bits) are not decided by TLC",
        "decimal values are compared as numbers (1.50 = 1.5), as Decimal equality does",
    ]


def replay(rec):
    print(rec.get("what"))
    return 1
