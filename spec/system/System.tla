------------------------------- MODULE System -------------------------------
(* The library as ONE state machine over a simfile object and a text "on disk":  *)
(* a user session loads or creates a simfile, edits it through keys and through    *)
(* known-property attributes (with their legacy aliases), edits charts, saves,       *)
(* re-opens and converts.  This composes the Object, Codec and Convert views of the   *)
(* listed properties into lifecycles, which none of them covers alone, and it is the    *)
(* specification that recorded sessions are validated against (Trace_System).           *)
(*                                                                                      *)
(* State:  obj  = [fmt |-> "sm" | "ssc", items, charts]  (Codec's representation)        *)
(*         disk = the last text written (<<>> before the first save)                      *)
EXTENDS Codec, NoteData, Beat, ConvertKeys
GR == INSTANCE Grouping         \* the counting rules
CV == INSTANCE Convert          \* the conversion rules, instantiated on code-point keys through NameOf

VARIABLES obj, disk
svars == <<obj, disk>>
VARIABLE fs             \* the named files of the session's filesystem: Seq([n |-> name, t |-> text]); only the file actions
                        \* at the end of this module speak about it (every other action is used as  A /\ UNCHANGED fs)

K(s) == s          \* keys are texts (Seq of code points), written out below
K_STOPS == <<83, 84, 79, 80, 83>>
K_FREEZES == <<70, 82, 69, 69, 90, 69, 83>>
K_BGCHANGES == <<66, 71, 67, 72, 65, 78, 71, 69, 83>>
K_ANIMATIONS == <<65, 78, 73, 77, 65, 84, 73, 79, 78, 83>>
K_TITLE == <<84, 73, 84, 76, 69>>
K_STEPSTYPE == <<83, 84, 69, 80, 83, 84, 89, 80, 69>>
K_DESCRIPTION == <<68, 69, 83, 67, 82, 73, 80, 84, 73, 79, 78>>
K_DIFFICULTY == <<68, 73, 70, 70, 73, 67, 85, 76, 84, 89>>
K_METER == <<77, 69, 84, 69, 82>>
K_RADARVALUES == <<82, 65, 68, 65, 82, 86, 65, 76, 85, 69, 83>>
K_ARTIST == <<65, 82, 84, 73, 83, 84>>

(* the key an attribute acts on: the alias exactly when it is present and the standard key is not *)
AliasOf(fmt, name) == IF name = K_STOPS /\ fmt = "sm" THEN K_FREEZES
                      ELSE IF name = K_BGCHANGES THEN K_ANIMATIONS
                      ELSE <<>>
Sel(fmt, items, name) == LET al == AliasOf(fmt, name) IN
                         IF al # <<>> /\ ~MHas(items, name) /\ MHas(items, al) THEN al ELSE name
ChartSel(c, name) == IF name = K_NOTES /\ ~MHas(c, K_NOTES) /\ MHas(c, K_NOTES2) THEN K_NOTES2 ELSE name
MDel(it, k) == SelectSeq(it, LAMBDA e : e.k # k)
RemoveAt(s, j) == SubSeq(s, 1, j - 1) \o SubSeq(s, j + 1, Len(s))

Body(o) == [items |-> o.items, charts |-> o.charts]
SameNorm(a, b) == a.fmt = b.fmt /\ (IF a.fmt = "ssc" THEN NormSSC(Body(a)) = NormSSC(Body(b)) ELSE Body(a) = Body(b))

-----------------------------------------------------------------------------
(* actions; `after` / `text` / `res` are the values a recorded session logged *)
Create(after) ==                      \* blank() / an empty object: the documentation fixes no content, the log does
  /\ obj' = after /\ UNCHANGED disk
LoadText(text, strict, entry, res) ==
  /\ LET r == Load(text, strict, entry, <<>>) IN
     IF r.st # "ok" THEN res \in {r.st, r.alt} /\ UNCHANGED obj      \* (alt: see Codec!Load - lazy tokenizer)
     ELSE res = "ok" /\ obj' = [fmt |-> r.fmt, items |-> r.obj.items, charts |-> r.obj.charts]
  /\ UNCHANGED disk
SetKey(k, v) == obj' = [obj EXCEPT !.items = MPut(@, k, v)] /\ UNCHANGED disk
DelKey(k, res) == /\ IF MHas(obj.items, k) THEN res = "ok" /\ obj' = [obj EXCEPT !.items = MDel(@, k)]
                     ELSE res = "KeyError" /\ UNCHANGED obj
                  /\ UNCHANGED disk
AttrValue(o, name) == LET k == Sel(o.fmt, o.items, name) IN IF MHas(o.items, k) THEN MGet(o.items, k) ELSE None
GetAttr(name, res) ==      \* res: the value read (None when neither spelling is present)
  /\ res = AttrValue(obj, name)
  /\ UNCHANGED svars
SetAttr(name, v) == obj' = [obj EXCEPT !.items = MPut(@, Sel(obj.fmt, obj.items, name), v)] /\ UNCHANGED disk
DelAttr(name, res) ==
  /\ LET k == Sel(obj.fmt, obj.items, name) IN
     IF MHas(obj.items, k) THEN res = "ok" /\ obj' = [obj EXCEPT !.items = MDel(@, k)]
     ELSE res = "KeyError" /\ UNCHANGED obj
  /\ UNCHANGED disk
AppendChart(ch) == obj' = [obj EXCEPT !.charts = Append(@, ch)] /\ UNCHANGED disk      \* ch: the chart as logged (blank() or built)
RemoveChart(j) == j \in DOMAIN obj.charts /\ obj' = [obj EXCEPT !.charts = RemoveAt(@, j)] /\ UNCHANGED disk
SwapCharts(i, j) == /\ i \in DOMAIN obj.charts /\ j \in DOMAIN obj.charts
                    /\ obj' = [obj EXCEPT !.charts[i] = obj.charts[j], !.charts[j] = obj.charts[i]] /\ UNCHANGED disk
SetChartItem(j, name, v) ==           \* SSC chart, by key or by attribute (NOTES / NOTES2 alias)
  /\ obj.fmt = "ssc" /\ j \in DOMAIN obj.charts
  /\ obj' = [obj EXCEPT !.charts[j] = MPut(@, ChartSel(@, name), v)] /\ UNCHANGED disk
DelChartItem(j, k, res) ==
  /\ obj.fmt = "ssc" /\ j \in DOMAIN obj.charts
  /\ IF MHas(obj.charts[j], k) THEN res = "ok" /\ obj' = [obj EXCEPT !.charts[j] = MDel(@, k)]
     ELSE res = "KeyError" /\ UNCHANGED obj
  /\ UNCHANGED disk
SetChartField(j, f, v) ==             \* SM chart: one of the six fields
  /\ obj.fmt = "sm" /\ j \in DOMAIN obj.charts /\ f \in 1..6
  /\ obj' = [obj EXCEPT !.charts[j].fields[f] = v] /\ UNCHANGED disk
SetChartExtra(j, ex) == obj.fmt = "sm" /\ j \in DOMAIN obj.charts /\ obj' = [obj EXCEPT !.charts[j].extra = ex] /\ UNCHANGED disk

(* saving writes a text that the strict tokenizer accepts and that has the documented parameter structure *)
Saveable(o) == /\ ~(IF o.fmt = "sm" THEN SMObjInGap(Body(o)) \/ SMExtraGap(Body(o)) ELSE SSCObjInGap(Body(o)))
               /\ ~ObjCtxGap(Body(o), o.fmt)
               /\ (o.fmt = "sm" => \A i \in DOMAIN o.items : o.items[i].k # K_NOTES)          \* (a property named NOTES reads back as a chart:
               /\ (o.fmt = "ssc" => \A i \in DOMAIN o.items : o.items[i].k # K_NOTEDATA)      \*  outside C01's / C02's key domain)
               /\ (o.fmt = "ssc" => \A j \in DOMAIN o.charts : ChartHasNotes(o.charts[j]) /\ ~(MHas(o.charts[j], K_NOTES) /\ MHas(o.charts[j], K_NOTES2)))
               /\ (o.fmt = "sm" => \A j \in DOMAIN o.charts : \A f \in 1..6 : o.charts[j].fields[f] = Strip(o.charts[j].fields[f]))
Save(text) ==
  /\ Saveable(obj)
  /\ LET lx == Lex(text, TRUE) IN
     /\ lx.st = "ok"
     /\ IF obj.fmt = "sm" THEN SerOK_SM(Body(obj), lx.params) ELSE SerOK_SSC(Body(obj), lx.params)
  /\ disk' = text /\ UNCHANGED obj
(* re-opening what was saved gives the same simfile (SSC: note data last) *)
Reopen(viaDetect) ==
  /\ disk # <<>>
  /\ LET r == Load(disk, TRUE, IF viaDetect THEN "anon" ELSE IF obj.fmt = "sm" THEN "sm_ctor" ELSE "ssc_ctor", <<>>) IN
     /\ r.st = "ok"
     /\ obj' = [fmt |-> r.fmt, items |-> r.obj.items, charts |-> r.obj.charts]
  /\ UNCHANGED disk
(* sm_to_ssc over the library's blank templates (logged): every source item copied over the template, charts appended *)
ToSSC(tmpl, ctmpl, res) ==
  /\ obj.fmt = "sm"
  /\ res = "ok"
  /\ LET copyAll(base, src) ==
           LET RECURSIVE F(_, _)
               F(acc, i) == IF i > Len(src) THEN acc ELSE F(MPut(acc, src[i].k, src[i].v), i + 1)
           IN F(base, 1)
         fieldsAsItems(ch) == [f \in 1..6 |-> [k |-> <<K_STEPSTYPE, K_DESCRIPTION, K_DIFFICULTY, K_METER, K_RADARVALUES, K_NOTES>>[f], v |-> ch.fields[f]]]
     IN obj' = [fmt |-> "ssc", items |-> copyAll(tmpl, obj.items),
                charts |-> [j \in DOMAIN obj.charts |-> copyAll(ctmpl, fieldsAsItems(obj.charts[j]))]]
  /\ UNCHANGED disk

(* ssc_to_sm under the caller's policy `beh` (a sequence of [kind, b]) over the library's blank templates (logged): *)
(* Convert.tla's rule on this object; outcome, named property and result must be the rule's.                          *)
SMFieldKeys == <<K_STEPSTYPE, K_DESCRIPTION, K_DIFFICULTY, K_METER, K_RADARVALUES, K_NOTES>>
BehOf(beh) == [k \in {beh[x].kind : x \in DOMAIN beh} |-> beh[CHOOSE x \in DOMAIN beh : beh[x].kind = k].b]
ToSMResult(o, tmpl, ctmpl, beh) ==
  CV!SscToSmG([items |-> o.items, charts |-> o.charts], [items |-> tmpl, charts |-> <<>>],
              [f \in 1..6 |-> [k |-> SMFieldKeys[f], v |-> ctmpl.fields[f]]], BehOf(beh), NameOf)
(* outside what C17 claims: key-only (None) values of listed properties, a WARPS value of blanks only, and the known *)
(* finding (a chart-level copy of a key an SM chart cannot hold ends in a bare KeyError)                               *)
ToSMInDomain(o, tmpl, ctmpl, beh) ==
  /\ o.fmt = "ssc"
  /\ ~\E i \in DOMAIN o.items : IsNone(o.items[i].v) /\ CV!SMSimfileKind(NameOf(o.items[i].k)) # ""
  /\ ~\E j \in DOMAIN o.charts : \E i \in DOMAIN o.charts[j] : IsNone(o.charts[j][i].v) /\ CV!SMChartKind(NameOf(o.charts[j][i].k)) # ""
  /\ ~\E i \in DOMAIN o.items : NameOf(o.items[i].k) = "WARPS" /\ ~IsNone(o.items[i].v) /\ o.items[i].v # <<>> /\ AllSpace(o.items[i].v)
  /\ ToSMResult(o, tmpl, ctmpl, beh).st # "KeyError"
ToSM(tmpl, ctmpl, beh, res) ==
  /\ obj.fmt = "ssc"
  /\ LET r == ToSMResult(obj, tmpl, ctmpl, beh) IN
     IF r.st # "ok" THEN /\ res.st = r.st
                         /\ (r.st = "InvalidPropertyException" => Contains(res.msg, r.key))     \* the message names the first offender
                         /\ UNCHANGED obj
     ELSE /\ res.st = "ok"
          /\ obj' = [fmt |-> "sm", items |-> r.items,
                     charts |-> [j \in DOMAIN r.charts |-> [fields |-> [f \in 1..6 |-> CV!Get(r.charts[j], SMFieldKeys[f])],
                                                              extra |-> ctmpl.extra]]]
  /\ UNCHANGED disk

(* reading a chart's notes / the simfile's timing strings through the library's readers (NoteData.tla, Beat.tla) *)
ChartNotesText(o, j) == IF o.fmt = "sm" THEN o.charts[j].fields[6]
                        ELSE LET c == o.charts[j] IN MGet(c, ChartSel(c, K_NOTES))
ReadNotes(j, res) ==        \* res: the notes the library yielded, [p, n, d, c, t, k]
  /\ j \in DOMAIN obj.charts
  /\ (obj.fmt = "ssc" => ChartHasNotes(obj.charts[j]))
  /\ res = Decode(ChartNotesText(obj, j))
  /\ UNCHANGED svars
(* writing a note stream into a chart through NoteData.from_notes (NoteData.tla's Encode; SM fields hold the stripped text) *)
WriteNotes(j, notes, cols) ==
  /\ j \in DOMAIN obj.charts
  /\ StrictlyIncreasing(notes) /\ \A k \in DOMAIN notes : WellFormedNote(notes[k], cols)
  /\ LET t == Encode(notes, cols) IN
     IF obj.fmt = "sm" THEN obj' = [obj EXCEPT !.charts[j].fields[6] = Strip(t)]
     ELSE obj' = [obj EXCEPT !.charts[j] = MPut(@, ChartSel(@, K_NOTES), t)]
  /\ UNCHANGED disk
(* counting the steps / jumps / hands / mines of a single-player chart with the default arguments (Grouping.tla) *)
AsStream(ns) == [i \in DOMAIN ns |-> [n |-> ns[i].n, d |-> ns[i].d, c |-> ns[i].c, t |-> ns[i].t, k |-> ns[i].k]]
CountInDomain(o, j) ==          \* Grouping.tla speaks about single-player streams
  /\ j \in DOMAIN o.charts /\ (o.fmt = "ssc" => ChartHasNotes(o.charts[j]))
  /\ \A i \in DOMAIN Decode(ChartNotesText(o, j)) : Decode(ChartNotesText(o, j))[i].p = 0
CountsOf(o, j) == LET ns == AsStream(Decode(ChartNotesText(o, j))) IN
                  [steps |-> GR!CountSteps(ns, GR!DefaultCountTypes, "all", 1),
                   jumps |-> GR!CountSteps(ns, GR!DefaultCountTypes, "all", 2),
                   hands |-> GR!CountSteps(ns, GR!DefaultCountTypes, "all", 3),
                   mines |-> GR!CountMines(ns)]
CountNotes(j, res) ==
  /\ CountInDomain(obj, j)
  /\ LET c == CountsOf(obj, j) IN
     res.steps = c.steps /\ res.jumps = c.jumps /\ res.hands = c.hands /\ res.mines = c.mines
  /\ UNCHANGED svars
K_BPMS == <<66, 80, 77, 83>>
K_DELAYS == <<68, 69, 76, 65, 89, 83>>
K_WARPS == <<87, 65, 82, 80, 83>>
TimingText(o, name) == LET k == Sel(o.fmt, o.items, name) IN IF MHas(o.items, k) THEN MGet(o.items, k) ELSE None
ReadTimingInDomain(o, name) == ~ParseEvents(TimingText(o, name)).big
ReadTiming(name, res) ==    \* res: [st, evs <<[n, d, m, e]>>] as TimingData(simfile) exposes the list `name`
  /\ LET p == ParseEvents(TimingText(obj, name)) IN
     IF ~p.ok THEN res.st # "ok"
     ELSE /\ res.st = "ok" /\ Len(res.evs) = Len(p.evs)
          /\ \A i \in DOMAIN p.evs : /\ Norm(<<p.evs[i].k, SUB>>) = <<res.evs[i].n, res.evs[i].d>>
                                       /\ SameDecimal(p.evs[i].v, [m |-> res.evs[i].m, e |-> res.evs[i].e])
  /\ UNCHANGED svars

-----------------------------------------------------------------------------
(* Timing of a chart's notes: which object supplies the timing data (split timing), the lists it parses   *)
(* to (Beat.tla), the exact timeline (Timing.tla) and the chart's notes (NoteData.tla), composed.           *)
(* Times are compared as integers in U = 1/286720 s on the "smooth" sub-domain (every BPM divides 640,       *)
(* pauses and offset are multiples of 2 U): there every note's time is an integer number of U.                *)
TM == INSTANCE Timing
QPB == 26880              \* positions: 1/26880 beat
UPS == 286720             \* times: 1/286720 s
KeyOf(n) == (CHOOSE p \in KeyTable : p[1] = n)[2]
K_OFFSET == KeyOf("OFFSET")
ChartTimingNames == <<"BPMS", "STOPS", "DELAYS", "TIMESIGNATURES", "TICKCOUNTS", "COMBOS", "WARPS", "SPEEDS", "SCROLLS", "FAKES", "LABELS">>
Truthy(v) == ~IsNone(v) /\ v # <<>>
VersionDec(o) == LET v == AttrValue(o, K_VERSION) IN IF Truthy(v) THEN ParseDecimal(v) ELSE [ok |-> TRUE, m |-> 0, e |-> 0, big |-> FALSE]
VersionReadable(o) == VersionDec(o).ok /\ ~VersionDec(o).big /\ VersionDec(o).e <= 6 /\ VersionDec(o).m < 1000 /\ VersionDec(o).m >= 0
SplitVersion(o) == LET d == VersionDec(o) IN d.m * 10 >= 7 * Pow10(d.e)
(* the chart is the source iff: SSC simfile, SSC chart, version >= 0.7, and one of the eleven timing properties is non-empty *)
UsesChart(o, j) == /\ o.fmt = "ssc" /\ j # 0 /\ SplitVersion(o)
                   /\ \E i \in 1..11 : LET k == KeyOf(ChartTimingNames[i]) IN MHas(o.charts[j], k) /\ Truthy(MGet(o.charts[j], k))
(* all five fields come from that one source, never from the other *)
SourceText(o, j, name) ==
  IF UsesChart(o, j) THEN (IF MHas(o.charts[j], name) THEN MGet(o.charts[j], name) ELSE None)
  ELSE IF name \in {K_WARPS, K_OFFSET, K_DELAYS} THEN (IF MHas(o.items, name) THEN MGet(o.items, name) ELSE None)
  ELSE AttrValue(o, name)         \* (BPMS, STOPS: through the attribute, i.e. FREEZES on an SM simfile without STOPS)
(* (bounds keep every intermediate below 2^31: a q lasts at most 64 U, a pause or offset at most ~10 s, notes lie before beat 1000) *)
BpmU(v) == (640 * Pow10(v.e)) \div v.m
SmoothBpm(v) == v.m > 0 /\ v.e <= 3 /\ v.m < 100000 /\ (640 * Pow10(v.e)) % v.m = 0 /\ BpmU(v) <= 64
SecU(v) == (v.m * UPS) \div Pow10(v.e)
SmoothSec(v) == v.e <= 6 /\ v.m > -7000 /\ v.m < 7000 /\ (v.m * UPS) % (2 * Pow10(v.e)) = 0 /\ SecU(v) <= 3000000 /\ SecU(v) >= -3000000
SmoothLen(v) == v.m > 0 /\ v.e <= 3 /\ v.m < 100000
(* the five fields as the chosen source's texts parse (Beat.tla) *)
TPB(o, j) == ParseEvents(SourceText(o, j, K_BPMS))
TPS(o, j) == ParseEvents(SourceText(o, j, K_STOPS))
TPD(o, j) == ParseEvents(SourceText(o, j, K_DELAYS))
TPW(o, j) == ParseEvents(SourceText(o, j, K_WARPS))
TPO(o, j) == LET ot == SourceText(o, j, K_OFFSET) IN IF Truthy(ot) THEN ParseDecimal(ot) ELSE [ok |-> TRUE, m |-> 0, e |-> 0, big |-> FALSE]
(* the timing data in Timing.tla's units (only evaluated inside the sub-domain below) *)
TimingTD(o, j) ==
  LET pb == TPB(o, j)  ps == TPS(o, j)  pd == TPD(o, j)  pw == TPW(o, j) IN
  [bpms |-> [i \in DOMAIN pb.evs |-> [b |-> pb.evs[i].k * TM!TICK, u |-> BpmU(pb.evs[i].v)]],
   stops |-> [i \in DOMAIN ps.evs |-> [b |-> ps.evs[i].k * TM!TICK, u |-> SecU(ps.evs[i].v)]],
   delays |-> [i \in DOMAIN pd.evs |-> [b |-> pd.evs[i].k * TM!TICK, u |-> SecU(pd.evs[i].v)]],
   warps |-> [i \in DOMAIN pw.evs |-> [b |-> pw.evs[i].k * TM!TICK, len |-> TM!TICK * NearestTick(DecimalAsRat(pw.evs[i].v))]]]
TimingOff(o, j) == SecU(TPO(o, j))
(* the sub-domain this specification evaluates numerically *)
TimingOK(o, j) ==
  LET pb == TPB(o, j)  ps == TPS(o, j)  pd == TPD(o, j)  pw == TPW(o, j)  po == TPO(o, j)
      inc(evs) == \A k \in 1..(Len(evs) - 1) : evs[k].k < evs[k + 1].k
  IN /\ VersionReadable(o)
     /\ pb.ok /\ ps.ok /\ pd.ok /\ pw.ok /\ po.ok
     /\ ~pb.big /\ ~ps.big /\ ~pd.big /\ ~pw.big /\ ~po.big
     /\ pb.evs # <<>> /\ pb.evs[1].k = 0
     /\ \A i \in DOMAIN pb.evs : SmoothBpm(pb.evs[i].v) /\ pb.evs[i].k >= 0 /\ pb.evs[i].k < 3000
     /\ \A i \in DOMAIN ps.evs : SmoothSec(ps.evs[i].v) /\ ps.evs[i].v.m > 0 /\ ps.evs[i].k >= 0 /\ ps.evs[i].k < 3000
     /\ \A i \in DOMAIN pd.evs : SmoothSec(pd.evs[i].v) /\ pd.evs[i].v.m > 0 /\ pd.evs[i].k >= 0 /\ pd.evs[i].k < 3000
     /\ \A i \in DOMAIN pw.evs : SmoothLen(pw.evs[i].v) /\ pw.evs[i].k >= 0 /\ pw.evs[i].k < 3000 /\ NearestTick(DecimalAsRat(pw.evs[i].v)) > 0
     /\ SmoothSec(po)
     /\ inc(pb.evs) /\ inc(ps.evs) /\ inc(pd.evs) /\ inc(pw.evs)
NoteQ(x) == (x.n * QPB) \div x.d
NotesTimable(ns) == \A k \in DOMAIN ns : QPB % ns[k].d = 0 /\ ns[k].n < 1000 * ns[k].d
TimeNotesInDomain(o, j) ==
  /\ j \in DOMAIN o.charts /\ (o.fmt = "ssc" => ChartHasNotes(o.charts[j]))
  /\ TimingOK(o, j) /\ NotesTimable(Decode(ChartNotesText(o, j)))
(* time_notes(NoteData(chart), TimingData(simfile, chart), opt): opt "fake" (the default) | "drop" | "keep" *)
TimedNotesOf(o, j, opt) ==
  LET ns == Decode(ChartNotesText(o, j))  td == TimingTD(o, j)  off == TimingOff(o, j)
      hit(k) == TM!Hittable(td, NoteQ(ns[k]))
      keep(k) == hit(k) \/ opt = "keep" \/ (opt = "fake" /\ ns[k].t = 49)
      idx == SelectSeq([k \in DOMAIN ns |-> k], keep)
  IN [m \in DOMAIN idx |->
        LET k == idx[m]  x == ns[k] IN
        [p |-> x.p, n |-> x.n, d |-> x.d, c |-> x.c, k |-> x.k,
         t |-> IF ~hit(k) /\ opt = "fake" THEN 70 ELSE x.t,
         tm |-> TM!Val(td, TM!TimeL(td, NoteQ(x), TM!T_STOP)) - off]]
TimeNotes(j, opt, res) ==      \* res: the timed notes the library yielded, [p, n, d, c, t, k, tm (in U)]
  /\ TimeNotesInDomain(obj, j)
  /\ res = TimedNotesOf(obj, j, opt)
  /\ UNCHANGED svars
-----------------------------------------------------------------------------
(* Named files: serialize into a file, simfile.open(name), simfile.mutate(name, ...).                             *)
FHas(f, n) == \E i \in DOMAIN f : f[i].n = n
FGet(f, n) == f[CHOOSE i \in DOMAIN f : f[i].n = n].t
FPut(f, n, t) == IF FHas(f, n) THEN [i \in DOMAIN f |-> IF f[i].n = n THEN [n |-> n, t |-> t] ELSE f[i]]
                 ELSE Append(f, [n |-> n, t |-> t])
FAsSet(f) == {<<f[i].n, f[i].t>> : i \in DOMAIN f}
IsSerializationOf(o, text) ==
  LET lx == Lex(text, TRUE) IN
  lx.st = "ok" /\ (IF o.fmt = "sm" THEN SerOK_SM(Body(o), lx.params) ELSE SerOK_SSC(Body(o), lx.params))
WriteFile(name, text) ==
  /\ Saveable(obj) /\ IsSerializationOf(obj, text)
  /\ fs' = FPut(fs, name, text) /\ UNCHANGED svars
(* simfile.open(name): the format is what the file NAME says (.sm / .ssc, any letter case), else what the content says *)
LoadedFrom(name, strict) == Load(FGet(fs, name), strict, "named", name)
OpenFile(name, strict, res) ==
  /\ FHas(fs, name)
  /\ LET r == LoadedFrom(name, strict) IN
     IF r.st # "ok" THEN res \in {r.st, r.alt} /\ UNCHANGED obj
     ELSE res = "ok" /\ obj' = [fmt |-> r.fmt, items |-> r.obj.items, charts |-> r.obj.charts]
  /\ UNCHANGED <<disk, fs>>
(* with simfile.mutate(name, output_filename = out, backup_filename = bak) as sf: <edits>; <body ends>            *)
(* edits: [op "setkey", k, v] | [op "setattr", name, v] | [op "delkey", k] (present keys only);                     *)
(* body: "normal" | "CancelMutation" | an exception class name; <<>> for out / bak: not given                       *)
ApplyEdit(o, e) == CASE e.op = "setkey" -> [o EXCEPT !.items = MPut(@, e.k, e.v)]
                     [] e.op = "setattr" -> [o EXCEPT !.items = MPut(@, Sel(o.fmt, o.items, e.name), e.v)]
                     [] e.op = "delkey" -> [o EXCEPT !.items = MDel(@, e.k)]
RECURSIVE ApplyEdits(_, _, _)
ApplyEdits(o, es, i) == IF i > Len(es) THEN o ELSE ApplyEdits(ApplyEdit(o, es[i]), es, i + 1)
MutEntry(name) == LET r == LoadedFrom(name, TRUE) IN [fmt |-> r.fmt, items |-> r.obj.items, charts |-> r.obj.charts]
MutateInDomain(name, out, bak, edits) ==
  /\ FHas(fs, name) /\ LoadedFrom(name, TRUE).st = "ok"
  /\ (bak = <<>> \/ bak \notin {name, out}) /\ (out = <<>> \/ out # name)
  /\ Saveable(MutEntry(name)) /\ Saveable(ApplyEdits(MutEntry(name), edits, 1))
MutateFile(name, out, bak, edits, body, res, texts) ==     \* texts: [out, bak]: what the filesystem holds afterwards
  /\ MutateInDomain(name, out, bak, edits)
  /\ LET o0 == MutEntry(name)  o1 == ApplyEdits(o0, edits, 1)
         target == IF out = <<>> THEN name ELSE out IN
     IF body = "unwritable" THEN /\ res # "ok"           \* a destination that cannot be opened for writing (it is a directory): the save is
                                 /\ fs' = fs             \* refused with an exception and no file changes - the input keeps its content
     ELSE
     IF body # "normal" THEN /\ res = (IF body = "CancelMutation" THEN "ok" ELSE body)      \* cancelled: no exception; raised: that exception
                             /\ fs' = fs                                                   \* and nothing is written
     ELSE /\ res = "ok"
          /\ IsSerializationOf(o1, texts.out)                                              \* exactly the edited simfile
          /\ (bak # <<>> => IsSerializationOf(o0, texts.bak))                              \* the backup: the simfile as it was read
          /\ fs' = FPut(IF bak # <<>> THEN FPut(fs, bak, texts.bak) ELSE fs, target, texts.out)
  /\ UNCHANGED svars

(* invariant of every session: what is on disk re-opens as something the object was at the time of saving; checked by Reopen *)
TypeOK == obj.fmt \in {"sm", "ssc"} /\ MUnique(obj.items)
=============================================================================
