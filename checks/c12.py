"""C12 — time -> beat inverts beat -> time on the tick grid.

The property is a RELATION (Timing.tla, BeatAtOK): with Present(t) the ticks the song is "on" at time t,
the answer is max Present(t) by default, min Present(t) for the WARP tag, any element of it for other
tags, and - when no tick is present - a tick whose half-tick window contains t.

(M)   MC_Timing: on every timing data of the bounded model the specification's own beat_at (search by time,
      step back over same-time events tagged later, extrapolate, round to a tick) satisfies the relation at
      every probe time under the main tags; round trip on unskipped ticks; paused beat inside pauses;
      monotone in t; the symbolic (linear-form) and numeric formulations of the relation agree.
(S2C) every model timing data as a real engine: beat_at(time_at(probe, tag0), tag) for every probe, times
      half-way through every pause, and random integer times; all decided by TLC with exact integers.
(C2S) random timing data with arbitrary decimal values and the corpus: every asked time is the engine's own
      time_at of a probe (on or off the tick grid) or half-way through a pause, i.e. a linear form of the
      timeline, so TLC decides the relation symbolically (componentwise comparison) - no numeric tolerance.
      Smooth random timing data add random numeric times.  History independence is exercised by redundant
      BPM changes in the generators: every answer is checked against the history-free relation.
"""
from . import timing_common as tc
from . import c11

INVS = ["InvBeatAt", "InvBeatAtSym", "InvRoundTrip", "InvBeatMonotone"]
KINDS = ("beat",)
PID = "C12"


def run(ctx):
    c11.run_model(ctx, PID, INVS, KINDS, ctx.quick)
    if ctx.quick:
        c11.run_c2s(ctx, PID, KINDS, 200, 120)
    else:
        c11.run_c2s(ctx, PID, KINDS, 5000, 2500)
    ctx.exhaustive = True
    ctx.rule = ("one evaluation per beat_at query; S2C: every timing data of the bounded model x (probe, tag0) boundary times x tags "
                "+ mid-pause times + random integer times; C2S: random + corpus timing data, symbolic times; "
                "non-trivial = timing data with a stop, delay or warp; distinct = distinct timing data")
    ctx.assumptions += [
        "asked times are the engine's own time_at answers (boundary cases), mid-pause times, or - on the smooth sub-domain - arbitrary exact binary fractions; times stay below 1e5 s",
        "for tags other than WARP and the default, any present tick is accepted (the property fixes only those two)",
        "float noise: away from event times beat_at rounds to the nearest tick, which is insensitive to 1-ulp differences; at event times the asked float is bit-for-bit the engine's own state time",
    ]


def replay(rec):
    case = rec["case"]
    print(rec.get("what"))
    if case.get("mode") == "td":
        td = tc.TD.from_json(case["td"])
        eng, _ = td.engine()
        print(td.show())
        q = case.get("query") or {}
        if q.get("k") == "beatsym":
            t = eng.time_at(tc.beat_of(q["b0"]), tc.tag_enum(q["tag0"]))
            print("time_at ->", float(t), "| beat_at ->", eng.beat_at(t, tc.tag_enum(q["tag"])))
        for st in getattr(eng, "_state_machine", []):
            print("  ", st)
    return 1
