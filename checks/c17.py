"""C17 — SSC -> SM conversion applies the caller's policy to every SSC-only property.
C16 — SM -> SSC conversion keeps every property, chart, timing and note (run_c16, used by c16.py).

(M)   MC_Convert: bounded sources (one representative SSC-only key per kind at simfile and chart level, in
      every order, empty / default / default with blanks / non-default), every total or partial behaviour
      mapping of the kinds involved, 0..2 charts, custom templates: the conversion fold equals the
      declarative statement, the exception names the first offending property in conversion order,
      NotImplementedError iff warps, no other outcome exists.  For sm2ssc: timing strings incl. negative
      BPMs/stops and the FREEZES alias.
(S2C) every emitted case is built as real objects and converted; outcome, named property and result are
      compared with TLC's, and the recorded call is validated again by Trace_Convert (source/templates
      unmodified, no shared mutable object, result loads back equal, round trip).
(C2S) random sources (blank, corpus, generated), random behaviour mappings, templates on/off.
"""
import json
import random

from harness import tlc, core
from harness.core import cps, uncps
from . import convert_common as cv

INVS = ["InvDeclarative", "InvOutcomes", "InvFirstOffender", "InvRaiseIff", "InvSmToSsc"]


def q(lst):
    return "{" + ", ".join('"%s"' % x for x in lst) + "}"


def mc_cfg(direction, maxitems, maxchart, simkeys, chartkeys, valcodes, behkinds, noteslast=True):
    return ("SPECIFICATION Spec\nCONSTANTS\n Dir = \"%s\"\n MaxItems = %d\n MaxChartItems = %d\n SimKeys = %s\n ChartKeys = %s\n"
            " ValCodes = %s\n BehKinds = %s\n DoEmit = TRUE\n NotesLast = %s\n%sINVARIANT Emit\n" % (
                direction, maxitems, maxchart, q(simkeys), q(chartkeys), q(valcodes), q(behkinds), "TRUE" if noteslast else "FALSE",
                "".join("INVARIANT %s\n" % i for i in INVS)))


def configs(direction, quick):
    if direction == "ssc2sm":
        if quick:
            return [("a", (direction, 2, 1, ["VERSION", "COMBOS", "WARPS"], ["CHARTNAME", "COMBOS", "MUSIC"], ["empty", "padded", "other", "warps0"], ["gameplay", "metadata"])),
                    ("after-notes", (direction, 1, 1, ["COMBOS"], ["CHARTNAME", "COMBOS", "BPMS"], ["default", "other"], ["gameplay", "timing"], False))]
        # (sizes bounded so that the emitted cases fit in memory: every state is replayed)
        return [("a", (direction, 2, 1, ["VERSION", "ORIGIN", "JACKET", "COMBOS", "WARPS"], ["CHARTNAME", "COMBOS", "BPMS", "MUSIC"],
                       ["empty", "default", "padded", "other"], ["gameplay", "timing"])),
                ("a2", (direction, 2, 1, ["ORIGIN", "COMBOS", "WARPS"], ["CHARTNAME", "COMBOS"], ["padded", "other", "warps0"], ["metadata", "gameplay", "timing"])),
                ("after-notes", (direction, 1, 2, ["COMBOS"], ["CHARTNAME", "COMBOS", "BPMS", "WARPS"], ["empty", "default", "other"], ["metadata", "gameplay", "timing"], False)),
                ("b", (direction, 3, 0, ["VERSION", "JACKET", "SCROLLS", "LABELS"], ["CHARTNAME"], ["default", "other"], ["version", "filepath", "gameplay", "metadata"]))]
    if quick:
        return [("sm", (direction, 2, 0, ["BPMS", "STOPS", "FREEZES", "ANIMATIONS", "LABELS", "OFFSET"], ["CHARTNAME"], ["bpm", "bpmneg", "stop", "stopneg", "stopzero", "none", "empty"], []))]
    return [("sm", (direction, 3, 0, ["BPMS", "STOPS", "FREEZES", "ANIMATIONS", "LABELS", "OFFSET", "BGCHANGES"], ["CHARTNAME"], ["bpm", "bpmneg", "stop", "stopneg", "stopzero", "none", "empty"], []))]


def s2c_job(job):
    rid, rec = job
    direction = rec["dir"]
    beh = [(k, rec["beh"][k]) for k in rec["behkinds"]]
    if direction == "ssc2sm":
        src = cv.build_ssc(rec["src"])
        tmpl = cv.build_sm(rec["tmpl"])
        ctmpl = cv.build_smchart(rec["ctmpl"])
    else:
        src = cv.build_sm(rec["src"])
        tmpl = cv.build_ssc(rec["tmpl"])
        ctmpl = cv.build_sscchart(rec["ctmpl"])
    r = cv.record_call(rid, direction, src, tmpl, ctmpl, beh, with_back=False)
    e = rec["res"]
    diff = None
    if r["st"] != e["st"]:
        diff = "outcome %s, TLC expects %s" % (r["st"], e["st"])
    elif e["st"] == "InvalidPropertyException" and r["key"] != e["key"]:
        diff = "exception names %r, TLC expects %r" % (r["key"], e["key"])
    elif e["st"] == "ok" and (r["res"]["items"] != e["items"] or r["res"]["charts"] != e["charts"]):
        diff = "result %s, TLC expects %s" % (cv.show(r["res"]), cv.show(e))
    return r, diff


def run_dir(ctx, pid, direction):
    quick = ctx.quick
    for name, args in configs(direction, quick):
        res = tlc.run(module="MC_Convert", cfg=mc_cfg(*args), dirs=cv.DIRS, workers=16, timeout=6000, heap="8g")
        if res.invariant_violated:
            ctx.violation("%s:model:%s" % (pid, res.invariant_violated),
                          "the specified conversion violates %s:\n%s" % (res.invariant_violated, (res.error_text or "")[:2500]), {"mode": "model"})
            continue
        tlc.require_ok(res, "MC_Convert")
        ctx.add_tlc("MC_Convert %s/%s" % (direction, name), res)
        seen = set()
        cases = []
        for rec in res.printed:
            key = json.dumps([rec["src"], rec["beh"], rec["behkinds"]], sort_keys=True)
            if key not in seen:
                seen.add(key)
                cases.append(rec)
        if not cases:
            raise core.MachineryError("vacuity: MC_Convert emitted nothing")
        out = core.pmap(s2c_job, list(enumerate(cases)), chunk=100)
        recs = [r for r, _ in out]
        for (r, diff), rec in zip(out, cases):
            ctx.traces += 1
            ctx.evaluations += 1
            ctx.nontrivial_add(("s2c", json.dumps([rec["src"], rec["beh"]], sort_keys=True)))
            known_key = rec["res"]["st"] == "KeyError" or (direction == "sm2ssc" and rec["freezes"]) or rec["unclaimed"]
            if diff and not known_key:
                ctx.violation("%s:s2c" % pid, "%s on source %s, behaviours %s: %s" % (direction, cv.show(rec["src"]), rec["beh"], diff),
                              {"mode": "call", "dir": direction, "src": rec["src"], "tmpl": rec["tmpl"], "ctmpl": rec["ctmpl"],
                               "beh": [(k, rec["beh"][k]) for k in rec["behkinds"]]})
        verdict = cv.validate(ctx, recs)
        judge(ctx, pid, recs, verdict, count=False)
        ctx.notes["s2c_cases_%s" % direction] = ctx.notes.get("s2c_cases_%s" % direction, 0) + len(cases)
        mid = cases[len(cases) // 2]
        ctx.sample({"s2c": {"dir": direction, "source": cv.show(mid["src"]), "behaviours": mid["beh"], "tlc_outcome": mid["res"]["st"], "named": mid["res"]["key"]}})


def judge(ctx, pid, recs, verdict, count=True):
    for r in recs:
        cl = verdict[r["id"]]["clause"]
        if count:
            ctx.traces += 1
            ctx.evaluations += 1
            ctx.nontrivial_add(json.dumps([r["src"], r["beh"], r["tmpl"]["items"][:2]], sort_keys=True))
        case = {"mode": "call", "dir": r["dir"], "src": r["src"], "tmpl": r["tmpl"], "ctmpl": r["ctmpl"], "beh": [(b["kind"], b["b"]) for b in r["beh"]]}
        if cl.startswith("domain:"):
            ctx.notes["excluded_by_spec_domain_predicate"] = ctx.notes.get("excluded_by_spec_domain_predicate", 0) + 1
        elif cl.startswith("known:") and pid == "C17" and cl == "known:freezes-alias-not-converted":
            ctx.notes["c16_known_finding_met_on_the_way"] = ctx.notes.get("c16_known_finding_met_on_the_way", 0) + 1
        elif cl.startswith("known:"):
            ctx.violation("%s:%s" % (pid, cl[6:]), "known finding: %s" % cl[6:], case)
        elif cl:
            ctx.violation("%s:%s" % (pid, cl),
                          "recorded %s call rejected (%s): outcome %s %r; source %s; behaviours %s" % (
                              r["dir"], cl, r["st"], r["key"], json.dumps(cv.show(r["src"]))[:500], r["beh"]), case)


SSC_ONLY_SIM = ["VERSION", "ORIGIN", "TIMESIGNATURES", "LABELS", "MUSICLENGTH", "LASTSECONDHINT", "PREVIEWVID", "JACKET", "CDIMAGE",
                "DISCIMAGE", "PREVIEW", "COMBOS", "SPEEDS", "SCROLLS", "FAKES"]
SSC_CHART_PROPS = ["CHARTNAME", "CHARTSTYLE", "CREDIT", "DISPLAYBPM", "TIMESIGNATURES", "LABELS", "TICKCOUNTS", "COMBOS", "SPEEDS",
                   "SCROLLS", "FAKES", "ATTACKS", "OFFSET", "BPMS", "STOPS", "DELAYS", "WARPS"]
DEFAULTS = {"TIMESIGNATURES": "0.000=4=4", "TICKCOUNTS": "0.000=4", "COMBOS": "0.000=1", "SPEEDS": "0.000=1.000=0.000=0",
            "SCROLLS": "0.000=1.000", "LABELS": "0.000=Song Start"}


def rand_state(rng, key):
    r = rng.random()
    d = DEFAULTS.get(key, "")
    if r < 0.25:
        return None          # absent
    if r < 0.4:
        return ""
    if r < 0.6:
        return d
    if r < 0.75:
        return rng.choice([" ", "\n", "\t "]) + d + rng.choice(["", " ", "\r\n"])
    if r < 0.85 and BLANK_VALUES.get(key):
        return BLANK_VALUES[key]      # what a blank SSC simfile holds under this name (a default only where the table says so)
    return rng.choice(["x", "1.000=2", "0.000=4=4,8=3=4", "yes", d + "0"])


class _Blank(dict):
    def get(self, key, default=None):
        if not self:
            from simfile.ssc import SSCSimfile, SSCChart
            self.update({k: v for k, v in SSCChart.blank().items() if v})
            self.update({k: v for k, v in SSCSimfile.blank().items() if v})
        return dict.get(self, key, default)


BLANK_VALUES = _Blank()


def gen_ssc(rng, corp):
    import simfile
    from simfile.ssc import SSCSimfile, SSCChart
    r = rng.random()
    if r < 0.5:
        sf = SSCSimfile.blank()
    elif r < 0.7 and corp:
        sf = simfile.open(rng.choice(corp)[1])
    else:
        sf = SSCSimfile(string="")
        sf["TITLE"] = "t"
    for k in SSC_ONLY_SIM:
        if rng.random() < 0.35:
            v = rand_state(rng, k)
            if v is None:
                sf.pop(k, None)
            else:
                sf[k] = v
    if rng.random() < 0.35:
        # properties whose NAMES merely resemble the listed ones (parts of them, or longer): never refusable, always copied
        for k in rng.sample(["VER", "VERSIONS", "ION", "WARP", "WAR", "S", "E", "A", "P", "ORIGIN2", "LABEL", "JACKETS", "SPEED", "XCOMBOS",
                             "FAKE", "PREVIEWVI", "CDIMAGES", "SCROLL", "MUSICLENGTH2", "TIMESIGNATURE", "LASTSECONDHINTS", "X"], rng.randint(1, 3)):
            sf[k] = rng.choice(["", "v", "0.000=1", "0.83"])
    w = rng.random()
    if w < 0.15:
        sf["WARPS"] = rng.choice(["4.000=2.000", "1=1,\n8=0.5", "16.000=0.000", "2=0,\n4=0"])
    elif w < 0.3:
        sf["WARPS"] = ""
    elif w < 0.4:
        sf.pop("WARPS", None)
    if rng.random() < 0.3:
        ks = list(sf.keys())
        rng.shuffle(ks)
        for k in ks[:3]:
            sf.move_to_end(k)
    n = rng.choice([0, 1, 1, 2, 3])
    while len(sf.charts) > n:
        sf.charts.pop()
    while len(sf.charts) < n:
        sf.charts.append(SSCChart.blank())
    for c in sf.charts:
        if "NOTES" not in c:
            c["NOTES"] = c.pop("NOTES2", "0000")
        for k in SSC_CHART_PROPS:
            if rng.random() < 0.25:
                v = rand_state(rng, k)
                if v is None:
                    c.pop(k, None)
                else:
                    c[k] = v
                    c.move_to_end("NOTES")
        if rng.random() < 0.25:          # an in-memory edit leaves a property behind the note data
            k = rng.choice(SSC_CHART_PROPS)
            c.pop(k, None)
            c[k] = rand_state(rng, k) or ""
        if rng.random() < 0.3:
            c.stepstype = rng.choice(["dance-single", "pump-single", ""])
            c.meter = str(rng.randint(1, 20))
    return sf


def gen_beh(rng):
    beh = []
    for k in cv.KINDS:
        if rng.random() < 0.45:
            beh.append((k, rng.choice(cv.BEHS)))
    return beh


def c17_job(job):
    rid, seed, corp = job
    import simfile
    from simfile.sm import SMSimfile, SMChart
    rng = random.Random(seed)
    random.seed(seed)
    src = gen_ssc(rng, corp)
    beh = gen_beh(rng)
    # chart-level copy-anyway is the known finding class: keep the random domain outside it
    chart_kinds_present = {"metadata", "gameplay", "timing"}
    beh = [(k, b) for k, b in beh if not (b == "copy" and k in chart_kinds_present and src.charts)]
    tmpl = ctmpl = None
    if rng.random() < 0.4:
        tmpl = SMSimfile.blank()
        tmpl["TITLE"] = "from template"
        tmpl["XTEMPLATE"] = "kept"
        if rng.random() < 0.5:
            tmpl.charts.append(SMChart.blank())
    if rng.random() < 0.4:
        ctmpl = SMChart.blank()
        ctmpl.description = "from chart template"
    return cv.record_call(rid, "ssc2sm", src, tmpl, ctmpl, beh)


def probe_jobs(start):
    """directed probes of the known-finding class (bare KeyError)"""
    from simfile.ssc import SSCSimfile, SSCChart
    out = []
    for i, (key, beh) in enumerate([("MUSIC", []), ("NOTES2", []), ("XUNKNOWN", []), ("CHARTNAME", [("metadata", "copy")]),
                                    ("BPMS", [("timing", "copy")])]):
        sf = SSCSimfile.blank()
        c = SSCChart.blank()
        c[key] = "v"
        c.move_to_end("NOTES")
        sf.charts.append(c)
        out.append(cv.record_call(start + i, "ssc2sm", sf, None, None, beh))
    return out


def run(ctx):
    run_dir(ctx, "C17", "ssc2sm")
    n = 500 if ctx.quick else 15000
    corp = cv.corpus("ssc")
    recs = core.pmap(c17_job, [(i, ctx.seed * 1000 + i, corp) for i in range(n)], chunk=50)
    # round trip: sm_to_ssc outputs of SM sources without SSC-only keys
    from . import c16
    rt = core.pmap(c16.c16_job, [(n + i, ctx.seed * 7000 + i, cv.corpus("sm"), True) for i in range(150 if ctx.quick else 3000)], chunk=50)
    recs += rt
    recs += probe_jobs(n + len(rt))
    # round trip of SM sources that spell their stops FREEZES (with and without a STOPS key next to it): the alias key comes back
    recs += [c16.freezes_probe(len(recs), with_back=True), c16.freezes_probe(len(recs) + 1, with_back=True, keep_stops=True)]
    verdict = cv.validate(ctx, recs)
    judge(ctx, "C17", recs, verdict)
    # whole sessions against System.tla: this check judges the rejections at the ssc_to_sm event
    from . import system_common as sysc
    sessions, sverdict = sysc.run_sessions(ctx, 300 if ctx.quick else 5000, ctx.seed + 17, tosm_bias=True)
    sysc.judge(ctx, "C17", sessions, sverdict, sysc.TOSM_OPS, "conversion to SM inside a session")
    sysc.mc_for(ctx, "C17")          # MC_System: bounded model of whole sessions, every transition replayed on the library
    ctx.notes["sessions_with_a_tosm_event"] = sum(1 for s_ in sessions if any(e["op"] == "tosm" for e in s_["events"]))
    ctx.notes["c2s_calls"] = len(recs)
    ctx.sample({"c2s": {"source": cv.show(recs[1]["src"]), "behaviours": recs[1]["beh"], "outcome": recs[1]["st"], "named": recs[1]["key"]}})
    ctx.exhaustive = True
    ctx.rule = ("S2C: every case of the bounded MC_Convert configurations; C2S: random SSC sources x behaviour mappings x templates, plus "
                "sm_to_ssc->ssc_to_sm round trips; one evaluation per conversion call; distinct = distinct (source, behaviours)")
    ctx.assumptions += [
        "SSC-only properties are absent, empty, default-valued (also with blanks) or non-default strings (a key-only property, value None, is outside the stated domain)",
        "chart keys the SM chart cannot hold (MUSIC, NOTES2, unknown keys, any chart key under COPY_ANYWAY) are the recorded known finding; directed probes keep it visible",
        "a blank-only WARPS value is not claimed either way and not generated",
    ]


def replay(rec):
    case = rec["case"]
    print(rec.get("what"))
    if case.get("mode") == "call":
        d = case["dir"]
        if d == "ssc2sm":
            r = cv.record_call(0, d, cv.build_ssc(case["src"]), cv.build_sm(case["tmpl"]), cv.build_smchart(case["ctmpl"]), [tuple(x) for x in case["beh"]])
        else:
            r = cv.record_call(0, d, cv.build_sm(case["src"]), cv.build_ssc(case["tmpl"]), cv.build_sscchart(case["ctmpl"]), [])
        print("outcome:", r["st"], r["key"], "| result:", cv.show(r["res"]))
        print("shared:", r["shared"], "timing:", r["timing"], "notes:", r["notes"], "reload:", r["reload"], "back:", r["back"])
    return 1
