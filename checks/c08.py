"""C08 — notes written to note data read back identically, in canonical form.

(M)   MC_Encode: every position-sorted stream built by appending a strictly greater note (players with
      gaps, beats of several denominators, keysounds), starting from the empty stream: the declarative
      encoder's text decodes to the stream, has the requested columns, has exactly 4 x lcm(denominators)
      rows per measure with every skipped measure / player blank, and re-encodes to itself.
(S2C) NoteData.from_notes on every emitted stream: text compared with the specification's; where the
      layout differs, the recorded call is handed to TLC (Trace_NoteData), which decides on structure.
(C2S) random sorted streams (1..16 columns, players 0..2 with gaps, denominators on and off the tick
      grid) plus the notes decoded from corpus charts and C07's generated texts: TLC decodes the emitted
      text, compares it with the input stream and the read-back notes, checks the measure shape and that
      a second pass reproduces the text.
"""
import json
import random

from harness import tlc, core, trace
from harness.core import cps, uncps
from . import notedata_common as nc

INVS = ["InvRoundTrip", "InvColumns", "InvShape", "InvStable", "InvEmpty"]


def mc_cfg(cols, maxnotes, players, beats, kinds):
    return ("SPECIFICATION Spec\nCONSTANTS\n Cols = %d\n MaxNotes = %d\n Players = {%s}\n BeatCodes = {%s}\n"
            " KindCodes = {%s}\n DoEmit = TRUE\n%sINVARIANT Emit\n" % (
                cols, maxnotes, ",".join(map(str, players)),
                ",".join(str(n * 1000 + d) for n, d in beats),
                ",".join(str(ord(t) * 100000 + k + 1) for t, k in kinds),
                "".join("INVARIANT %s\n" % i for i in INVS)))


def beats(dens, upto):
    from fractions import Fraction
    out = set()
    for d in dens:
        for n in range(0, upto * d):
            f = Fraction(n, d)
            out.add((f.numerator, f.denominator))
    return sorted(out)


def configs(quick):
    small = [(0, 1), (1, 2), (1, 3), (4, 1), (9, 2), (17, 3)]
    if quick:
        return [("p02", (1, 2, [0, 2], beats([1, 2, 3], 5), [("1", -1), ("2", 3)])),
                ("mixed", (2, 2, [0, 1], beats([1, 4, 5], 2) + [(9, 2), (8, 1)], [("1", -1)])),
                ("deep", (2, 3, [0], small, [("1", -1)]))]
    return [("p012", (1, 2, [0, 1, 2], beats([1, 2, 3, 4], 5), [("1", -1), ("2", 3)])),
            ("mixed", (2, 2, [0, 1], beats([1, 2, 3, 4, 5], 3) + [(9, 2), (8, 1), (33, 4)], [("1", -1), ("M", 12)])),
            ("deep", (2, 4, [0, 2], small + [(5, 4)], [("1", -1)])),
            ("deep3", (3, 3, [0, 1], small, [("1", -1), ("4", 0)]))]


def noncanonical(text, cols, mode):
    """the same notes written with twice the rows per measure (and, sometimes, a trailing blank measure)"""
    zero = "0" * cols
    players = []
    for ptext in text.split("&"):
        measures = []
        for m in ptext.split(","):
            rows = [r for r in m.split("\n") if r.strip()]
            measures.append("\n".join(x for r in rows for x in (r, zero)))
        if mode % 2:
            measures.append("\n".join([zero] * 4))
        players.append("\n,\n".join(measures) + "\n")
    return "&\n".join(players)


def rejected_call_before(cols):
    """history: an EARLIER from_notes call with the same column count that the library rejects part-way through a row
    (a valid note followed by one beyond the last column; an unsorted stream; a negative column); nothing it leaves
    behind may show in the next call"""
    from simfile.notes import NoteData, Note, NoteType
    from simfile.timing import Beat
    bads = [
        [Note(beat=Beat(0), column=0, note_type=NoteType.HOLD_HEAD), Note(beat=Beat(0), column=cols, note_type=NoteType.TAP)],
        [Note(beat=Beat(1, 3), column=cols - 1, note_type=NoteType.MINE, keysound_index=5), Note(beat=Beat(1, 3), column=cols + 3, note_type=NoteType.TAP)],
        [Note(beat=Beat(2), column=0, note_type=NoteType.ROLL_HEAD, player=1), Note(beat=Beat(2), column=-cols - 1, note_type=NoteType.TAP, player=1)],
    ]
    for bad in bads:
        try:
            str(NoteData.from_notes(iter(bad), cols))
        except Exception:  # noqa
            pass


def encode_record(rid, notes, cols):
    """run from_notes on the stream; returns the C2S record"""
    from simfile.notes import NoteData
    rec = {"t": "encode", "id": rid, "notes": notes, "cols": cols, "st": "ok", "text": [], "back": [],
           "columns": 0, "text2": []}
    try:
        mode = nc.text_mode(repr(notes))
        built = [nc.build_note(d) for d in notes]
        if mode % 4 == 1:
            rejected_call_before(cols)
        # the stream is handed over as a generator, an iterator, a list or a tuple
        src = [lambda: (x for x in built), lambda: iter(built), lambda: built, lambda: tuple(built)][(mode // 7) % 4]()
        nd = NoteData.from_notes(src, cols)
        text = str(nd)
        rec["text"] = cps(text)
        back, consistent = nc.read_notes(nd, mode)
        if not consistent:
            rec["st"] = "InconsistentReads"
            return rec
        rec["back"] = [nc.proj_note(x) for x in back]
        rec["columns"] = nd.columns
        # second pass: from the notes read back, or from a NoteData OBJECT whose text holds the same notes in a
        # non-canonical layout (every row followed by an empty row, an extra blank measure at the end)
        if (mode // 3) % 3 == 0 and text.strip():
            rec["text2"] = cps(str(NoteData.from_notes(NoteData(noncanonical(text, cols, mode)), cols)))
        else:
            rec["text2"] = cps(str(NoteData.from_notes(back, cols)))
    except Exception as e:  # noqa
        rec["st"] = type(e).__name__
    return rec


def big_record(rid, notes, cols):
    """a stream whose measures have hundreds of thousands of rows (beats with very large denominators, or several small
    coprime ones): the text is megabytes long, so the record carries what the harness MEASURES on it - rows per measure,
    the notes read back, whether a second pass reproduces it - and TLC judges those against the specification"""
    from simfile.notes import NoteData
    rec = {"t": "encodebig", "id": rid, "notes": notes, "cols": cols, "st": "ok", "text": [], "back": [], "columns": 0,
           "shape": [], "stable": False, "wide": False}
    try:
        nd = NoteData.from_notes((nc.build_note(d) for d in notes), cols)
        text = str(nd)
        back = list(nd)
        rec["back"] = [nc.proj_note(x) for x in back]
        rec["columns"] = nd.columns
        rec["shape"] = [[sum(1 for row in m.splitlines() if row.strip()) for m in pl.split(",")] for pl in text.split("&")]
        rec["wide"] = all(len(row.strip()) == cols for row in text.replace("&", "\n").replace(",", "\n").splitlines()
                          if row.strip() and "[" not in row)
        rec["stable"] = (str(NoteData.from_notes(back, cols)) == text)
    except Exception as e:  # noqa
        rec["st"] = type(e).__name__
    return rec


def big_cases(rng, n):
    out = []
    for i in range(n):
        cols = rng.choice([1, 2])
        m = rng.choice([0, 0, 1])
        if i % 2 == 0:
            d = rng.choice([65537, 70001, 99991, 131101])
            k = rng.randrange(1, 4 * d)
            from math import gcd
            while gcd(k, d) != 1:
                k += 1
            notes = [{"p": 0, "n": 4 * m * d + k, "d": d, "c": rng.randrange(cols), "t": ord("1"), "k": -1}]
        else:
            dens = rng.choice([(41, 43, 47), (37, 41, 53), (16, 81, 125), (64, 27, 49), (101, 103, 7)])
            notes = []
            for j, d in enumerate(sorted(dens, reverse=True)):
                notes.append({"p": 0, "n": 4 * m * d + 1 + j * d, "d": d, "c": rng.randrange(cols), "t": ord("1"), "k": -1})
            notes.sort(key=lambda x: (x["n"] / x["d"], x["c"]))
        out.append((notes, cols))
    return out


def s2c_job(rec):
    r = encode_record(0, rec["notes"], rec["cols"])
    same = (r["st"] == "ok" and r["text"] == rec["text"] and r["back"] == rec["notes"]
            and r["columns"] == rec["cols"] and r["text2"] == r["text"])
    return same, r


def judge(ctx, recs, meta, verdict):
    excluded = 0
    for rec in recs:
        cl = verdict[rec["id"]]["clause"]
        m = meta[rec["id"]]
        if cl.startswith("domain:"):
            excluded += 1
            continue
        if cl:
            ctx.violation("C08:" + cl + (":" + rec["st"] if cl == "encode-raised" else ""),
                          "from_notes rejected (%s): %d columns, stream %s -> text %r" % (
                              cl, rec["cols"], [nc.show_note(x) for x in rec["notes"][:10]], (uncps(rec["text"]) or "")[:300]),
                          m)
    return excluded


def c2s(ctx, nstreams, ntexts, ncorpus):
    from simfile.notes import NoteData
    rng = random.Random(ctx.seed * 11 + 3)
    cases = [([], c) for c in (1, 4, 16)]
    for _ in range(nstreams):
        cases.append(nc.gen_stream(rng))
    for _ in range(ntexts):
        t = nc.gen_text(rng, max_chars=2500)
        try:
            nd = NoteData(t)
            cases.append(([nc.proj_note(x) for x in nd], nd.columns))
        except Exception as e:  # noqa  (reading well-formed note data failed: nothing can be re-encoded)
            ctx.violation("C08:source-note-data-unreadable:" + type(e).__name__,
                          "well-formed note data could not be read (%r), so it cannot be rebuilt: %r" % (e, t[:300]), {"mode": "text", "text": t})
    wins = []
    for label, t in nc.corpus_charts():
        for w in nc.windows(t, 8):
            if len(w) <= 6000:
                wins.append(w)
    rng.shuffle(wins)
    for w in wins[:ncorpus]:
        nd = NoteData(w)
        cases.append(([nc.proj_note(x) for x in nd], nd.columns))
    recs, meta = [], {}
    for rid, (notes, cols) in enumerate(cases):
        recs.append(encode_record(rid, notes, cols))
        meta[rid] = {"mode": "stream", "notes": notes, "cols": cols}
    for notes, cols in big_cases(rng, 6 if ctx.quick else 40):
        rid = len(recs)
        recs.append(big_record(rid, notes, cols))
        meta[rid] = {"mode": "stream", "notes": notes, "cols": cols}
    verdict = trace.validate(ctx, "Trace_NoteData", nc.DIRS, recs)
    ex = judge(ctx, recs, meta, verdict)
    for rec in recs:
        ctx.traces += 1
        ctx.evaluations += 1
        if not verdict[rec["id"]]["clause"].startswith("domain:"):
            ctx.nontrivial_add(json.dumps([rec["notes"], rec["cols"]]))
    ctx.notes["c2s_excluded_by_spec_domain_predicate"] = ex
    r = recs[min(5, len(recs) - 1)]
    ctx.sample({"c2s_stream": [nc.show_note(x) for x in r["notes"][:12]], "columns": r["cols"], "text": (uncps(r["text"]) or "")[:200]})


def run(ctx):
    cfgs = configs(ctx.quick)
    jobs = [dict(module="MC_Encode", cfg=mc_cfg(*args), dirs=nc.DIRS, workers=8, timeout=3000, heap="3g") for _, args in cfgs]
    results = tlc.run_many(jobs, parallel=2)
    n = 0
    differ = []
    for (name, args), res in zip(cfgs, results):
        if res.invariant_violated:
            ctx.violation("C08:model:%s" % res.invariant_violated,
                          "the documented encoding rules violate %s in config %s:\n%s" % (res.invariant_violated, name, (res.error_text or "")[:1500]),
                          {"mode": "model", "config": name})
            continue
        tlc.require_ok(res, "MC_Encode " + name)
        ctx.add_tlc("MC_Encode/" + name, res)
        seen = {}
        for rec in res.printed:
            seen.setdefault(json.dumps(rec["notes"]), rec)
        recs = list(seen.values())
        for rec, (same, r) in zip(recs, core.pmap(s2c_job, recs, chunk=200)):
            n += 1
            ctx.nontrivial_add(("s2c", json.dumps([rec["notes"], rec["cols"]])))
            if not same:
                differ.append(r)
        if recs:
            mid = recs[len(recs) // 2]
            ctx.sample({"s2c_stream": [nc.show_note(x) for x in mid["notes"]], "columns": mid["cols"], "spec_text": uncps(mid["text"])})
    if n == 0:
        raise core.MachineryError("vacuity: no stream replayed")
    ctx.notes["s2c_streams_encoded"] = n
    ctx.notes["s2c_text_differs_from_canonical_layout"] = len(differ)
    if differ:
        # layout is not part of the property: TLC decides on structure
        meta = {}
        for i, r in enumerate(differ):
            r["id"] = i
            meta[i] = {"mode": "stream", "notes": r["notes"], "cols": r["cols"]}
        verdict = trace.validate(ctx, "Trace_NoteData", nc.DIRS, differ, name="Trace_NoteData(s2c)")
        judge(ctx, differ, meta, verdict)
    ctx.traces += n
    ctx.evaluations += n
    if ctx.quick:
        c2s(ctx, 500, 100, 60)
    else:
        c2s(ctx, 8000, 3000, 100000)
    # whole sessions against System.tla: this check judges the rejections at the "writenotes" event
    from . import system_common as sysc
    sessions, sverdict = sysc.run_sessions(ctx, 150 if ctx.quick else 3000, ctx.seed + 8)
    sysc.judge(ctx, "C08", sessions, sverdict, {"writenotes"}, "writing a note stream into a chart inside a session")
    ctx.notes["sessions_with_a_writenotes_event"] = sum(1 for s_ in sessions if any(e["op"] == "writenotes" for e in s_["events"]))
    ctx.exhaustive = True
    ctx.rule = ("S2C: every sorted stream of the bounded MC_Encode configurations (incl. the empty stream); C2S: random "
                "sorted streams + notes decoded from generated texts and corpus windows; distinct = distinct (stream, columns)")
    ctx.assumptions += [
        "streams are position-sorted with unique positions, non-negative beats, columns in range (TLC checks the precondition and excludes others)",
        "denominators are capped so that a measure has at most 8000 rows (TLC re-decodes the emitted text)",
    ]


def replay(rec):
    case = rec["case"]
    print(rec.get("what"))
    if case.get("mode") == "stream":
        r = encode_record(0, case["notes"], case["cols"])
        print("status:", r["st"], "| text:", repr(uncps(r["text"]))[:1500])
        print("read back equal:", r["back"] == case["notes"], "| columns:", r["columns"], "| second pass equal:", r["text2"] == r["text"])
    return 1
