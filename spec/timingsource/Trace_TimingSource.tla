-------------------------- MODULE Trace_TimingSource ------------------------
(* Validates recorded TimingData(simfile, chart) / displaybpm(...) results.      *)
(*  r.cfg as in TimingSource; r.td: name -> which side's sentinel value showed up   *)
(*  ("s" | "c" | "zero" | "emptylist" | "other"); r.disp: <<class, side, field>>;     *)
(*  r.dbclass: syntactic class of the chosen source's DISPLAYBPM as generated          *)
EXTENDS TimingSource, Json, IOUtils, TLC
VARIABLE i
Recs == ndJsonDeserialize(IOEnv.TRACE_FILE)
N == Len(Recs)
Cfg(r) == [kind |-> r.cfg.kind, ver |-> r.cfg.ver, chart |-> r.cfg.chart, tp |-> r.cfg.tp,
           off |-> [x \in {"s", "c"} |-> r.cfg.off[x]], db |-> [x \in {"s", "c"} |-> r.cfg.db[x]],
           nb |-> [x \in {"s", "c"} |-> r.cfg.nb[x]], ignore |-> r.cfg.ignore]
Clause(r) ==
  LET c == Cfg(r)  td == TimingDataOf(c)
      \* r.cfg.replica: the chart repeats the song's timing lists ("both"): only OFFSET / DISPLAYBPM tell the sides apart
      rep == "replica" \in DOMAIN r.cfg /\ r.cfg.replica
      badField == {n \in {"bpms", "stops", "delays", "warps", "offset"} :
                     IF rep /\ n # "offset" THEN r.td[n] # "both" ELSE r.td[n] # td[n][1]}
      dispOK == LET e == DisplayOf(c) IN
                IF rep /\ Len(e) = 3 /\ e[3] = "bpms" THEN r.disp = <<e[1], "both", "bpms">> ELSE r.disp = e IN
  IF r.st # "ok" THEN "raised"
  ELSE IF badField # {} THEN
       (IF \E n \in badField : r.td[n] \in {"s", "c"} /\ r.td[n] # Source(c) THEN "field-from-the-other-source" ELSE "field-value")
  ELSE IF r.nodisp THEN ""
  ELSE IF ~dispOK THEN "displayed-bpm" ELSE ""
Init == i = 1
Next == i <= N /\ PrintT(ToJson([id |-> Recs[i].id, clause |-> Clause(Recs[i])])) /\ i' = i + 1
Spec == Init /\ [][Next]_i
=============================================================================
