----------------------------- MODULE MC_System ------------------------------
(* Bounded model of System.tla: breadth-first over every reachable (object, disk)   *)
(* state of a user session whose calls are drawn from a small alphabet of keys,       *)
(* values, charts, templates and conversion policies.  TLC checks the system-level     *)
(* invariants below in every reachable state, and every explored transition is         *)
(* emitted - together with one call history that reaches its source state - so that    *)
(* the harness can step the real library along it (specification -> code).             *)
(*                                                                                     *)
(* `hist` is a history variable (the calls made so far).  It is kept out of the VIEW,   *)
(* so the set of distinct states is the set of distinct (obj, disk) pairs and hist is   *)
(* the first history TLC found for each of them.                                        *)
EXTENDS System, Json, TLC
CONSTANTS Fmt0,         \* "sm" | "ssc": the format of the initial (empty) simfile
          Focus,        \* which part of the alphabet is switched on: "edit" | "save" | "tossc" | "tosm"
          MaxItems, MaxCharts, MaxDepth, DoEmit
VARIABLE hist
mvars == <<obj, disk, fs, hist>>
View == <<obj, disk, fs>>

Key(n) == KeyOf(n)
K_COMBOS == Key("COMBOS")
K_CREDIT == Key("CREDIT")
V_E == <<>>
V_A == <<97>>
V_B == <<98, 58, 59>>                 \* "b:;"  (needs escaping)
V_ST == <<48, 61, 49>>               \* "0=1"
V_ST2 == <<52, 61, 50>>              \* "4=2"
V_VER == <<48, 46, 56, 51>>          \* "0.83"
V_COMBO2 == <<48, 61, 50>>           \* "0=2" (not the default)
N0 == <<48, 48, 48, 48>>                                         \* 0000
N1 == <<49, 48, 48, 49, 10, 48, 77, 48, 48>>                     \* 1001 / 0M00
N2 == <<50, 48, 48, 48, 10, 51, 49, 49, 49, 10, 48, 48, 48, 48, 10, 48, 48, 48, 48>>   \* hold head, tail + hand

(* Focus = "timing": timing properties on the simfile and on a chart, the SSC version, and the chart's notes timed *)
V_B160 == <<48, 61, 49, 54, 48>>         \* "0=160"
V_B2 == <<48, 61, 49, 54, 48, 44, 49, 61, 56, 48>>           \* "0=160,1=80"
V_B80 == <<48, 61, 56, 48>>          \* "0=80"
V_S1 == <<49, 61, 48, 46, 53>>           \* "1=0.5"
V_S2 == <<50, 61, 48, 46, 50, 53>>           \* "2=0.25"
V_W1 == <<49, 61, 49>>           \* "1=1"
V_O5 == <<48, 46, 53>>           \* "0.5"
V_069 == <<48, 46, 54, 57>>          \* "0.69"
V_07 == <<48, 46, 55>>           \* "0.7"
NT == <<49, 48, 48, 48, 10, 48, 49, 48, 48, 10, 48, 48, 49, 48, 10, 48, 48, 48, 49>>             \* 1000 / 0100 / 0010 / 0001
TimingVals(k) == IF k = K_BPMS THEN {V_B160, V_B2} ELSE IF k \in {K_STOPS, K_FREEZES} THEN {V_E, V_S1}
                 ELSE IF k = K_WARPS THEN {V_E, V_W1} ELSE IF k = K_OFFSET THEN {V_O5} ELSE IF k = K_VERSION THEN {V_069, V_07} ELSE {V_E}
ItemKeys == IF Focus = "timing" THEN {K_BPMS, K_STOPS, K_WARPS, K_VERSION} \cup (IF Fmt0 = "sm" THEN {K_FREEZES} ELSE {K_OFFSET})
            ELSE {K_TITLE, K_STOPS}
            \cup (IF Fmt0 = "sm" \/ Focus \in {"tosm", "tossc"} THEN {K_FREEZES} ELSE {})
            \cup (IF Focus \in {"save", "tosm", "tossc"} THEN {K_VERSION} ELSE {})
            \cup (IF Focus = "tosm" THEN {K_COMBOS} ELSE {})
ValsOf(k) == IF Focus = "timing" THEN TimingVals(k) ELSE
             IF k = K_TITLE THEN (IF Focus = "save" THEN {V_E, V_A, V_B} ELSE {V_E, V_A})
             ELSE IF k \in {K_STOPS, K_FREEZES} THEN {V_E, V_ST}
             ELSE IF k = K_VERSION THEN {V_VER}
             ELSE IF k = K_COMBOS THEN {CV!DefaultValue("COMBOS"), V_COMBO2}
             ELSE {V_E}
AttrNames == IF Focus = "timing" THEN {K_STOPS} ELSE {K_TITLE, K_STOPS}
NotesVals == IF Focus = "edit" THEN {N0, N1, N2} ELSE IF Focus = "timing" THEN {NT} ELSE {N0, N1}
SMChartOf(st, n) == [fields |-> <<st, V_E, V_E, V_E, V_E, n>>, extra |-> <<>>]
NewCharts(fmt) == IF fmt = "sm" THEN {SMChartOf(V_E, n) : n \in NotesVals}
                  ELSE {<<[k |-> nk, v |-> n]>> : nk \in {K_NOTES, K_NOTES2}, n \in NotesVals}
ChartItemNames == IF Focus = "timing" THEN {K_BPMS, K_STOPS, K_WARPS, K_OFFSET} ELSE {K_NOTES, K_CREDIT, K_STOPS}
ChartValsOf(name) == IF Focus = "timing" THEN (IF name = K_BPMS THEN {V_E, V_B80} ELSE IF name = K_STOPS THEN {V_E, V_S2}
                                               ELSE IF name = K_WARPS THEN {V_E, V_ST} ELSE {V_E, V_O5})
                     ELSE IF name = K_NOTES THEN NotesVals ELSE IF name = K_STOPS THEN {V_E, V_ST2} ELSE {V_E, V_A}

(* conversion templates (the caller's own; non-empty, as an empty template counts as "not given") *)
T_SSC == <<[k |-> K_VERSION, v |-> V_VER], [k |-> K_TITLE, v |-> V_A]>>
CT_SSC == <<[k |-> K_NOTES, v |-> V_E], [k |-> K_CREDIT, v |-> V_A]>>
T_SM == <<[k |-> K_TITLE, v |-> V_A], [k |-> K_ARTIST, v |-> V_E]>>
CT_SM == SMChartOf(V_A, V_E)
Policies == {<<>>, <<[kind |-> "version", b |-> "error"]>>, <<[kind |-> "timing", b |-> "ignore"]>>,
             <<[kind |-> "gameplay", b |-> "error"], [kind |-> "metadata", b |-> "ignore"]>>}

Canon(o) == IF o.fmt = "sm" THEN SerSM(Body(o)) ELSE SerSSC(Body(o))
H(rec) == hist' = Append(hist, rec)

-----------------------------------------------------------------------------
Init == /\ obj = [fmt |-> Fmt0, items |-> <<>>, charts |-> <<>>]
        /\ disk = <<>> /\ fs = <<>>
        /\ hist = <<>>

MSetKey == \E k \in ItemKeys : \E v \in ValsOf(k) :
             /\ MHas(obj.items, k) \/ Len(obj.items) < MaxItems
             /\ SetKey(k, v) /\ H([op |-> "setkey", k |-> k, v |-> v])
MDelKey == \E k \in ItemKeys : \E res \in {"ok", "KeyError"} :
             DelKey(k, res) /\ H([op |-> "delkey", k |-> k, res |-> res])
MGetAttr == \E name \in AttrNames :
             LET res == AttrValue(obj, name) IN GetAttr(name, res) /\ H([op |-> "getattr", name |-> name, res |-> res])
MSetAttr == \E name \in AttrNames : \E v \in ValsOf(name) :
             /\ MHas(obj.items, Sel(obj.fmt, obj.items, name)) \/ Len(obj.items) < MaxItems
             /\ SetAttr(name, v) /\ H([op |-> "setattr", name |-> name, v |-> v])
MDelAttr == \E name \in AttrNames : \E res \in {"ok", "KeyError"} :
             DelAttr(name, res) /\ H([op |-> "delattr", name |-> name, res |-> res])
MAppendChart == /\ Len(obj.charts) < MaxCharts
                /\ \E ch \in NewCharts(obj.fmt) : AppendChart(ch) /\ H([op |-> "appendchart", chart |-> ch])
MRemoveChart == \E j \in DOMAIN obj.charts : RemoveChart(j) /\ H([op |-> "removechart", j |-> j])
MSwapCharts == Len(obj.charts) >= 2 /\ obj.charts[1] # obj.charts[2] /\ SwapCharts(1, 2) /\ H([op |-> "swapcharts", i |-> 1, j |-> 2])
MSetChartItem == \E j \in DOMAIN obj.charts : \E name \in ChartItemNames : \E v \in ChartValsOf(name) :
                   /\ obj.fmt = "ssc"
                   /\ MHas(obj.charts[j], ChartSel(obj.charts[j], name)) \/ Len(obj.charts[j]) < (IF Focus = "timing" THEN 4 ELSE 3)
                   /\ SetChartItem(j, name, v) /\ H([op |-> "setchartitem", j |-> j, name |-> name, v |-> v])
MDelChartItem == \E j \in DOMAIN obj.charts : \E k \in (IF Focus = "timing" THEN {K_BPMS, K_STOPS} ELSE {K_CREDIT, K_STOPS}) : \E res \in {"ok", "KeyError"} :
                   DelChartItem(j, k, res) /\ H([op |-> "delchartitem", j |-> j, k |-> k, res |-> res])
MSetChartField == \E j \in DOMAIN obj.charts : \E f \in {1, 6} : \E v \in (IF f = 6 THEN NotesVals ELSE {V_E, V_A}) :
                   SetChartField(j, f, v) /\ H([op |-> "setchartfield", j |-> j, f |-> f, v |-> v])
MSave == /\ Saveable(obj)
         /\ LET t == Canon(obj) IN Save(t) /\ H([op |-> "save", reload |-> Load(t, TRUE, IF obj.fmt = "sm" THEN "sm_ctor" ELSE "ssc_ctor", <<>>).obj])
MReopen == \E d \in BOOLEAN : disk # <<>> /\ Reopen(d) /\ H([op |-> "reopen", detect |-> d])
MToSSC == obj.fmt = "sm" /\ ToSSC(T_SSC, CT_SSC, "ok") /\ H([op |-> "tossc", tmpl |-> T_SSC, ctmpl |-> CT_SSC])
MToSM == \E beh \in Policies :
           /\ obj.fmt = "ssc" /\ ToSMInDomain(obj, T_SM, CT_SM, beh)
           /\ LET r == ToSMResult(obj, T_SM, CT_SM, beh)
                  res == [st |-> r.st, msg |-> IF r.st = "InvalidPropertyException" THEN r.key ELSE <<>>]
              IN ToSM(T_SM, CT_SM, beh, res) /\ H([op |-> "tosm", tmpl |-> T_SM, ctmpl |-> CT_SM, beh |-> beh, st |-> r.st, key |-> IF r.st = "InvalidPropertyException" THEN r.key ELSE <<>>])
MReadNotes == \E j \in DOMAIN obj.charts :
                /\ (obj.fmt = "ssc" => ChartHasNotes(obj.charts[j]))
                /\ LET res == Decode(ChartNotesText(obj, j)) IN ReadNotes(j, res) /\ H([op |-> "readnotes", j |-> j, res |-> res])
MCountNotes == \E j \in DOMAIN obj.charts :
                /\ CountInDomain(obj, j)
                /\ LET res == CountsOf(obj, j) IN CountNotes(j, res) /\ H([op |-> "countnotes", j |-> j, res |-> res])
MReadTiming == \E name \in {K_STOPS} :
                LET p == ParseEvents(TimingText(obj, name)) IN
                /\ p.ok /\ ~p.big
                /\ UNCHANGED svars /\ H([op |-> "readtiming", name |-> name, evs |-> p.evs])

MTimeNotes == \E j \in DOMAIN obj.charts : \E opt \in {"fake", "drop", "keep"} :
                /\ TimeNotesInDomain(obj, j)
                /\ LET res == TimedNotesOf(obj, j, opt) IN TimeNotes(j, opt, res) /\ H([op |-> "timenotes", j |-> j, opt |-> opt, res |-> res])
TimingNext == MSetKey \/ MDelKey \/ MSetAttr \/ MDelAttr \/ MAppendChart \/ MSetChartItem \/ MDelChartItem \/ MTimeNotes
EditNext == MSetKey \/ MDelKey \/ MGetAttr \/ MSetAttr \/ MDelAttr \/ MAppendChart \/ MRemoveChart \/ MSwapCharts
            \/ MSetChartItem \/ MDelChartItem \/ MSetChartField \/ MReadNotes \/ MCountNotes \/ MReadTiming
(* Focus = "files": named files - serialize into a file, open by name (the NAME decides the format), mutate with output / backup *)
F_SM == <<97, 46, 115, 109>>       \* "a.sm"
F_SSC == <<98, 46, 83, 83, 67>>      \* "b.SSC"
F_TXT == <<99, 46, 116, 120, 116>>      \* "c.txt"
F_BAK == <<100, 46, 98, 97, 107>>      \* "d.bak"
FNames == {F_SM, F_SSC, F_TXT}
EditScripts == {<<>>, <<[op |-> "setkey", k |-> K_TITLE, v |-> V_B]>>, <<[op |-> "setattr", name |-> K_STOPS, v |-> V_ST]>>,
                <<[op |-> "setkey", k |-> K_VERSION, v |-> V_VER], [op |-> "delkey", k |-> K_VERSION]>>}
FileView(f) == [i \in DOMAIN f |-> LET r == Load(f[i].t, TRUE, "named", f[i].n) IN
                  [n |-> f[i].n, st |-> r.st, fmt |-> r.fmt, obj |-> r.obj]]
MWriteFile == \E name \in FNames :
                /\ (Len(fs) < 2 \/ FHas(fs, name))
                /\ Saveable(obj)
                /\ WriteFile(name, Canon(obj)) /\ H([op |-> "writefile", name |-> name]) 
MOpenFile == \E name \in FNames :
               /\ FHas(fs, name)
               /\ LET r == LoadedFrom(name, TRUE) IN
                  OpenFile(name, TRUE, r.st) /\ H([op |-> "openfile", name |-> name, res |-> r.st])
MMutateFile == \E name \in FNames : \E out \in {<<>>, F_TXT} : \E bak \in {<<>>, F_BAK} : \E edits \in EditScripts :
               \E body \in {"normal", "CancelMutation", "KeyError"} :
                 /\ MutateInDomain(name, out, bak, edits)
                 /\ (out # <<>> => ~FHas(fs, out) \/ Len(fs) <= 3)
                 /\ LET o0 == MutEntry(name)  o1 == ApplyEdits(o0, edits, 1)
                        texts == [out |-> Canon(o1), bak |-> IF bak = <<>> THEN <<>> ELSE Canon(o0)]
                        res == IF body \in {"normal", "CancelMutation"} THEN "ok" ELSE body
                    IN MutateFile(name, out, bak, edits, body, res, texts)
                       /\ H([op |-> "mutatefile", name |-> name, out |-> out, bak |-> bak, edits |-> edits, body |-> body, res |-> res])
FileNext == MWriteFile \/ MOpenFile \/ MMutateFile
Calls == \/ (Focus = "timing" /\ TimingNext)
         \/ (Focus = "files" /\ (MSetKey \/ MSetAttr \/ MAppendChart))
         \/ (Focus \notin {"timing", "files"} /\ EditNext)
         \/ (Focus \in {"save", "tossc", "tosm"} /\ (MSave \/ MReopen))
         \/ (Focus \in {"tossc", "tosm"} /\ (MToSSC \/ MToSM))
Next == \/ Calls /\ UNCHANGED fs
        \/ Focus = "files" /\ FileNext
Spec == Init /\ [][Next]_mvars

Bound == Len(hist) <= MaxDepth
Emit == DoEmit => PrintT(ToJson([hist |-> hist', obj |-> obj', disk |-> disk', files |-> FileView(fs')]))

-----------------------------------------------------------------------------
(* system-level invariants, evaluated in every reachable state *)
InvTypeOK == TypeOK
(* whatever state a session reaches, saving and re-opening it loses nothing, and a second save changes nothing (C01/C02/C04 *)
(* on the objects that sessions - alias writes, conversions, chart edits - actually produce)                                  *)
InvSaveReopen == Saveable(obj) =>
                   LET t == Canon(obj)
                       r == Load(t, TRUE, IF obj.fmt = "sm" THEN "sm_ctor" ELSE "ssc_ctor", <<>>)
                       o2 == [fmt |-> r.fmt, items |-> r.obj.items, charts |-> r.obj.charts]
                   IN r.st = "ok" /\ SameNorm(o2, obj) /\ Canon(o2) = t
(* the attribute view and the key view never disagree (C18), in every reachable state *)
InvViews == \A name \in AttrNames :
              LET a == AttrValue(obj, name)  al == AliasOf(obj.fmt, name) IN
              /\ MHas(obj.items, name) => a = MGet(obj.items, name)
              /\ (~MHas(obj.items, name) /\ al # <<>> /\ MHas(obj.items, al)) => a = MGet(obj.items, al)
              /\ (~MHas(obj.items, name) /\ (al = <<>> \/ ~MHas(obj.items, al))) => a = None
(* C16 then C17: an SM simfile converted to SSC and back under the default policy keeps every property and every chart *)
InvConvertRoundTrip ==
  (obj.fmt = "sm" /\ \A i \in DOMAIN obj.items : CV!SMSimfileKind(NameOf(obj.items[i].k)) = "") =>
    LET copyAll(base, src) == LET RECURSIVE F(_, _)
                                  F(acc, i) == IF i > Len(src) THEN acc ELSE F(MPut(acc, src[i].k, src[i].v), i + 1)
                              IN F(base, 1)
        fai(ch) == [f \in 1..6 |-> [k |-> SMFieldKeys[f], v |-> ch.fields[f]]]
        ssc == [fmt |-> "ssc", items |-> copyAll(T_SSC, obj.items), charts |-> [j \in DOMAIN obj.charts |-> copyAll(CT_SSC, fai(obj.charts[j]))]]
        back == ToSMResult(ssc, T_SM, CT_SM, <<>>)
    IN /\ back.st = "ok"
       /\ \A i \in DOMAIN obj.items : MHas(back.items, obj.items[i].k) /\ MGet(back.items, obj.items[i].k) = obj.items[i].v
       /\ Len(back.charts) = Len(obj.charts)
       /\ \A j \in DOMAIN obj.charts : \A f \in 1..6 : CV!Get(back.charts[j], SMFieldKeys[f]) = obj.charts[j].fields[f]
(* split timing is all-or-nothing (C15) composed with the timeline (C11, C13): while a chart is the source of the timing   *)
(* data, no edit of the SIMFILE's own properties - its VERSION apart - changes the times of that chart's notes, and vice versa *)
SourceIsolation ==
  [][\A j \in DOMAIN obj.charts :
       (/\ j \in DOMAIN obj'.charts /\ TimeNotesInDomain(obj, j) /\ TimeNotesInDomain(obj', j)
        /\ UsesChart(obj, j) = UsesChart(obj', j)
        /\ ChartNotesText(obj, j) = ChartNotesText(obj', j)
        /\ (IF UsesChart(obj, j) THEN obj'.charts[j] = obj.charts[j]
            ELSE \A k \in {K_BPMS, K_STOPS, K_FREEZES, K_DELAYS, K_WARPS, K_OFFSET} :
                   MHas(obj.items, k) = MHas(obj'.items, k) /\ (MHas(obj.items, k) => MGet(obj.items, k) = MGet(obj'.items, k))))
       => TimedNotesOf(obj', j, "keep") = TimedNotesOf(obj, j, "keep")]_mvars
(* the times of a single-player chart's notes never decrease along the chart, and a dropped / faked note is exactly an unhittable one *)
InvTimesMonotone ==
  \A j \in DOMAIN obj.charts : TimeNotesInDomain(obj, j) =>
     LET tn == TimedNotesOf(obj, j, "keep")  dr == TimedNotesOf(obj, j, "drop")  fk == TimedNotesOf(obj, j, "fake") IN
     /\ \A a, b \in DOMAIN tn : (a < b /\ tn[a].p = tn[b].p) => tn[a].tm <= tn[b].tm
     /\ Len(dr) <= Len(fk) /\ Len(fk) <= Len(tn)
     /\ \A a \in DOMAIN fk : fk[a].t = 70 => \E b \in DOMAIN tn : tn[b].tm = fk[a].tm /\ tn[b].c = fk[a].c /\ tn[b].t \in {49, 70}
(* files: a name occurs once; a mutate never touches a file other than its output and its backup (frame, as action property) *)
InvFsNames == \A i, j \in DOMAIN fs : fs[i].n = fs[j].n => i = j
Touched(h) == IF h.op = "writefile" THEN {h.name}
              ELSE IF h.op = "mutatefile" THEN {IF h.out = <<>> THEN h.name ELSE h.out, h.bak}
              ELSE {}
FilesFrame == [][\A i \in DOMAIN fs :
                   \/ (FHas(fs', fs[i].n) /\ FGet(fs', fs[i].n) = fs[i].t)
                   \/ (hist' # hist /\ fs[i].n \in Touched(hist'[Len(hist')]))]_mvars
=============================================================================
