------------------------------ MODULE MC_MSD -------------------------------
(* Enumerates every text over Alphabet up to MaxLen (optionally starting    *)
(* with Prefix, to partition the run) and emits what the MSD model says     *)
(* the tokenizer does with it, strictly and leniently; the harness compares *)
(* each line with msdparser itself (binding of the trusted-base model).     *)
(* Also checks, on the way, the model-level facts the properties rely on.   *)
EXTENDS MSD, Json, TLC
CONSTANTS Alphabet, MaxLen, First   \* First = 0: start from the empty text
VARIABLE t
Init == t = IF First = 0 THEN <<>> ELSE <<First>>
Grow == /\ Len(t) < MaxLen
        /\ \E c \in Alphabet : t' = Append(t, c)
Spec == Init /\ [][Grow]_t

Out(r) == [st |-> r.st, params |-> r.params]
Emit == PrintT(ToJson([t |-> t, s |-> Out(Lex(t, TRUE)), l |-> Out(Lex(t, FALSE))]))

(* lenient parsing never reports stray text; strict parsing differs from it *)
(* only by rejecting                                                         *)
InvLenient == LET s == Lex(t, TRUE)  l == Lex(t, FALSE) IN
              /\ l.st # "MSDParserError"
              /\ s.st = "ok" => l = s
              /\ s.st = "crash" => l.st = "crash"
(* lenient parsing = strict parsing of the text with its stray text removed  *)
(* (for texts whose keys begin with plain text; the others are tokenizer      *)
(* corners, counted by InvCornerCount's companion in the harness)             *)
InvStrayRemoved == LET l == Lex(t, FALSE) IN
                   (l.st = "ok" /\ KeysPlain(t)) => Lex(StrayRemoved(t), TRUE) = l
(* a serialized parameter list outside the escaping gaps reads back as itself *)
InvSerLex == LET p == <<<<75>>, t>> IN   \* key "K", value t
             (~InEscapeGap(t)) => ParamRoundTrips(p)
=============================================================================
