----------------------------- MODULE MC_Ungroup -----------------------------
(* C09/C10 (M), one state per stream of a small grid: same-beat modes and      *)
(* counting follow from the grouped items; ungrouping what group_notes emits    *)
(* restores the included notes (minus dropped orphans) whatever the ungroup     *)
(* policy; hand-built groups with a note inside a joined hold raise / pass /    *)
(* drop it.                                                                      *)
EXTENDS Grouping, TLC
CONSTANTS NRows, NCols, KindSet, TypeSets, HandBuilt
VARIABLE cells
Policies == {"raise", "keep", "drop"}
Modes == {"separate", "all", "bytype"}
StreamOf(cs) ==
  LET nz == SelectSeq([i \in 1..(NRows * NCols) |-> i], LAMBDA i : cs[i] # 0) IN
  [k \in DOMAIN nz |-> [n |-> (nz[k] - 1) \div NCols, d |-> 1, c |-> (nz[k] - 1) % NCols, t |-> cs[nz[k]],
                        k |-> IF cs[nz[k]] = HOLD /\ nz[k] % 2 = 1 THEN 5 ELSE -1]]   \* some hold heads carry a keysound
Stream == StreamOf(cells)
Init == cells \in [1..(NRows * NCols) -> KindSet]
Next == FALSE /\ UNCHANGED cells
Spec == Init /\ [][Next]_cells

TS(k) == CASE k = 1 -> {TAP, HOLD, TAIL, ROLL, MINE, LIFT}
           [] k = 2 -> {HOLD, TAIL, MINE}
           [] k = 3 -> {HOLD, TAIL}
           [] k = 4 -> {ROLL, TAIL}
           [] k = 5 -> DefaultCountTypes

(* groups partition the items in order; every group is one beat; sizes as the mode says *)
InvModes == \A ts \in TypeSets, mode \in Modes :
  LET g == Group(Stream, TS(ts), mode, FALSE, "raise", "raise").groups
      inc == Included(Stream, TS(ts)) IN
  /\ (mode # "bytype" => Flat(g) = NoJoin(inc))
  /\ BagEq(Flat(g), NoJoin(inc))
  /\ \A i \in DOMAIN g : g[i] # <<>> /\ \A a, b \in DOMAIN g[i] : SameBeat(g[i][a], g[i][b])
  /\ (mode = "separate" => \A i \in DOMAIN g : Len(g[i]) = 1)
  /\ (mode = "all" => \A i \in 1..(Len(g) - 1) : ~SameBeat(g[i][1], g[i + 1][1]))
  /\ (mode = "bytype" => \A i \in DOMAIN g : \A a \in DOMAIN g[i] : g[i][a].t = g[i][1].t)

(* counts: steps = beats with an eligible note; jumps/hands need 2/3; holds = items of joining *)
InvCounts ==
  LET inc == Included(Stream, DefaultCountTypes)
      beats == {inc[i].n : i \in DOMAIN inc}
      onBeat(b) == Cardinality({i \in DOMAIN inc : inc[i].n = b}) IN
  /\ \A k \in 1..4 : CountSteps(Stream, DefaultCountTypes, "all", k) = Cardinality({b \in beats : onBeat(b) >= k})
  /\ CountSteps(Stream, DefaultCountTypes, "separate", 1) = Len(inc)
  /\ \A oh \in Policies, ot \in Policies, hd \in {HOLD, ROLL} :
       LET r == CountHeld(Stream, hd, oh, ot)  i2 == Included(Stream, {hd, TAIL}) IN
       IF Raises(i2, oh, ot) THEN r.st = "OrphanedNoteException"
       ELSE r.st = "ok" /\ r.count = Cardinality({i \in DOMAIN i2 : Joined(i2, i)})
                           + (IF oh = "keep" THEN Cardinality({i \in DOMAIN i2 : OrphanHead(i2, i)}) ELSE 0)
                           + (IF ot = "keep" THEN Cardinality({i \in DOMAIN i2 : OrphanTail(i2, i)}) ELSE 0)

(* C10: ungroup after group *)
InvRoundTrip == \A ts \in TypeSets, mode \in Modes, join \in BOOLEAN, oh \in Policies, ot \in Policies :
  (join \/ (oh = "raise" /\ ot = "raise")) =>
  LET inc == Included(Stream, TS(ts))
      g == Group(Stream, TS(ts), mode, join, oh, ot) IN
  g.st = "ok" =>
    \A pol \in Policies :
      LET u == Ungroup(g.groups, pol)  exp == ExpectedUngrouped(inc, join, oh, ot) IN
      /\ u.st = "ok"
      /\ (mode # "bytype" => u.notes = exp)
      /\ BagEq(u.notes, exp) /\ NonDecreasingBeats(u.notes)

(* hand-built groups: a joined hold on column 0 from row 0 to row NRows-1 (as the first    *)
(* item), followed by the grid's notes of rows 1..NRows-2 as plain single-note groups       *)
HandItems == <<[n |-> 0, d |-> 1, c |-> 0, t |-> HOLD, k |-> 7, tn |-> NRows - 1, td |-> 1]>>
             \o LET mid == SelectSeq(Stream, LAMBDA x : x.n >= 1 /\ x.n <= NRows - 2) IN [i \in DOMAIN mid |-> Plain(mid[i])]
InvHandBuilt == HandBuilt =>
  \A pol \in Policies :
    LET items == HandItems
        u == Ungroup([i \in DOMAIN items |-> <<items[i]>>], pol)
        inside == {i \in DOMAIN items : InsideHold(items, i)}
        head == HeadOf(items[1])  tail == TailOf(items[1])
        kept == SelectSeq([i \in 1..(Len(items) - 1) |-> i + 1], LAMBDA i : pol = "keep" \/ i \notin inside) IN
    IF inside # {} /\ pol = "raise" THEN u.st = "OrphanedNoteException"
    ELSE /\ u.st = "ok"
         /\ u.notes = <<head>> \o [k \in DOMAIN kept |-> HeadOf(items[kept[k]])] \o <<tail>>
=============================================================================
