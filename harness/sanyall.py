"""SANY-parse every module under spec/ (each in a scratch copy with spec/common)."""
import os
import shutil
import subprocess
import sys
import tempfile
from concurrent.futures import ThreadPoolExecutor

from .tlc import SPEC, JAR_CP


# spec directories whose modules EXTEND modules of other directories
DEPENDS = {"system": ["codec", "notedata", "beat", "convert", "grouping", "timing"]}


def main():
    bad = []
    jobs = []
    for d in sorted(os.listdir(SPEC)):
        full = os.path.join(SPEC, d)
        if not os.path.isdir(full):
            continue
        for fn in sorted(os.listdir(full)):
            if fn.endswith(".tla"):
                jobs.append((d, fn))

    def one(job):
        d, fn = job
        scratch = tempfile.mkdtemp(prefix="vsany_")
        try:
            for src in [os.path.join(SPEC, "common"), os.path.join(SPEC, d)] + [os.path.join(SPEC, x) for x in DEPENDS.get(d, [])]:
                for f in os.listdir(src):
                    if f.endswith(".tla"):
                        shutil.copy(os.path.join(src, f), scratch)
            p = subprocess.run(["java", "-Djava.io.tmpdir=" + scratch, "-cp", JAR_CP, "tla2sany.SANY", fn], cwd=scratch,
                               stdout=subprocess.PIPE, stderr=subprocess.STDOUT, text=True)
            ok = p.returncode == 0 and "*** Errors" not in p.stdout and "Parse Error" not in p.stdout \
                and "Fatal errors" not in p.stdout
            return (d, fn, ok, p.stdout[-1500:])
        finally:
            shutil.rmtree(scratch, ignore_errors=True)

    with ThreadPoolExecutor(max_workers=8) as ex:
        for d, fn, ok, out in ex.map(one, jobs):
            if not ok:
                bad.append((d, fn, out))
    for d, fn, out in bad:
        print("SANY FAILED %s/%s\n%s" % (d, fn, out))
    print("sany: %d modules parsed, %d failed" % (len(jobs), len(bad)))
    return 1 if bad else 0


if __name__ == "__main__":
    sys.exit(main())
