"""C01 (SM) and C02 (SSC) — serialize then parse gives back the same simfile.
The two properties share this module; c02.py calls run_fmt(ctx, "ssc").

(M)   MC_Codec: objects built by edit actions from the empty simfile in a bounded alphabet;
      invariants: strict parser accepts the text, parameter structure, round trip, stability,
      auto-detection, (SSC) nothing dropped + chart-level from_str.
(S2C) every object TLC reached is built for real, serialized, re-parsed, re-serialized, and
      compared with the text / parameters / object the specification computed.
(C2S) random edit histories on real objects from blank(), the corpus and empty objects with
      rich Unicode values; each serialize/reparse cycle is validated by Trace_Codec (the MSD
      tokenizer model re-lexes the emitted text in TLC).
"""
import copy
import json
import random

from harness import tlc, core
from harness.core import cps, uncps
from . import codec_common as cc

INVS = ["InvStrictOK", "InvSerOK", "InvRoundTrip", "InvStable", "InvDetect", "InvNoDrop", "InvChartFromStr"]
S8 = [97, 58, 59, 92, 47, 10, 35, 32]


def mc_cfg(fmt, sigma, vallen, maxitems, maxcharts, chartmode, withversion, emit):
    return ("SPECIFICATION Spec\nCONSTANTS\n Fmt = \"%s\"\n Sigma = {%s}\n ValLen = %d\n MaxItems = %d\n"
            " MaxCharts = %d\n ChartMode = %d\n WithVersion = %s\n DoEmit = %s\n%sINVARIANT Emit\n" % (
                fmt, ",".join(map(str, sigma)), vallen, maxitems, maxcharts, chartmode,
                "TRUE" if withversion else "FALSE", "TRUE" if emit else "FALSE",
                "".join("INVARIANT %s\n" % i for i in INVS)))


def configs(fmt, quick):
    if fmt == "sm":
        if quick:
            return [("items-len3", ("sm", S8, 3, 1, 0, 0, False)),
                    ("two-items", ("sm", [97, 58, 59, 10], 1, 2, 0, 0, True)),
                    ("charts", ("sm", [97, 58], 1, 1, 1, 1, False))]
        return [("items-len3", ("sm", S8 + [13], 3, 1, 0, 0, False)),
                ("two-items", ("sm", S8, 2, 2, 0, 0, True)),
                ("charts", ("sm", S8, 1, 2, 1, 1, True)),
                ("charts-rich", ("sm", [97], 1, 1, 1, 2, False)),
                ("two-charts", ("sm", [97], 1, 0, 2, 1, False))]
    if quick:
        return [("items", ("ssc", S8, 2, 1, 0, 0, True)),
                ("chart", ("ssc", [97, 58], 1, 1, 1, 1, True))]
    return [("items", ("ssc", S8, 3, 1, 0, 0, True)),
            ("two-items", ("ssc", S8, 2, 2, 0, 0, True)),
            ("chart", ("ssc", S8, 1, 1, 1, 1, True)),
            ("chart-rich", ("ssc", [97], 1, 1, 1, 2, False)),
            ("two-charts", ("ssc", [97], 1, 0, 2, 3, False))]


# ---- S2C --------------------------------------------------------------------------------------

def s2c_job(job):
    fmt, rec, variant = job
    out = []

    class _C:
        def violation(self, key, what, case):
            out.append((key, what, case))
    r = s2c_one(_C(), fmt, rec, variant)
    return (r, out)


def s2c_one(ctx, fmt, rec, variant):
    """rec: [obj, gap, text, params] emitted by MC_Codec"""
    import simfile
    from msdparser import parse_msd
    o = rec["obj"]
    if rec["gap"]:
        return False
    sf = cc.build_sm(o) if fmt == "sm" else cc.build_ssc(o, share=(variant == "share"))
    case = {"mode": "s2c", "fmt": fmt, "obj": o, "variant": variant}
    pid = "C01" if fmt == "sm" else "C02"

    def bad(key, what):
        ctx.violation("%s:%s" % (pid, key), "%s [object %s]" % (what, show_obj(o, fmt)), case)
        return True

    try:
        text = str(sf)
    except Exception as e:  # noqa
        return bad("serialize-raised:" + type(e).__name__, "str() raised %r" % (e,))
    exp_text = uncps(rec["text"])
    if text != exp_text:
        # layout is not part of the property: compare at parameter level before objecting
        try:
            ps = [[cps(c) for c in p.components] for p in parse_msd(string=text)]
        except Exception as e:  # noqa
            return bad("strict-parser-rejects-output", "strict parser raised %r on %r" % (e, text))
        if not params_match(fmt, ps, rec["params"]):
            return bad("parameter-structure", "emitted %r; specification expects parameters %s" % (
                text, show_params(rec["params"])))
    try:
        re_ = type(sf)(string=text)
    except Exception as e:  # noqa
        return bad("reparse-raised:" + type(e).__name__, "re-parsing %r raised %r" % (text, e))
    exp_obj = o if fmt == "sm" else norm_ssc(o)
    if cc.proj(re_) != exp_obj:
        return bad("reparse-differs", "re-parsed object %s differs; text %r" % (show_obj(cc.proj(re_), fmt), text))
    if fmt == "sm" or exp_obj == o:
        if not (re_ == sf) or (re_ != sf):
            return bad("equality", "re-parsed simfile does not compare equal to the original")
    if str(re_) != text:
        return bad("second-serialization-differs", "second str() %r != first %r" % (str(re_), text))
    first_version = bool(o["items"]) and uncps(o["items"][0]["k"]) == "VERSION"
    det = None
    if (fmt == "sm") != first_version:      # only then is auto-detection claimed
        try:
            det = cc.fmt_of(simfile.loads(text))
        except Exception as e:  # noqa
            return bad("loads-raised:" + type(e).__name__, "loads raised %r on %r" % (e, text))
    if fmt == "sm" and not first_version and det != "sm":
        return bad("auto-detect", "SM text detected as %s" % det)
    if fmt == "ssc" and first_version and det != "ssc":
        return bad("auto-detect", "SSC text (VERSION first) detected as %s" % det)
    if fmt == "ssc":
        from simfile.ssc import SSCChart
        for j, ch in enumerate(sf.charts):
            try:
                c2 = SSCChart.from_str(str(ch))
            except Exception as e:  # noqa
                return bad("chart-from-str-raised:" + type(e).__name__, "SSCChart.from_str(str(chart)) raised %r" % (e,))
            if cc.proj_items(c2) != exp_obj["charts"][j]:
                return bad("chart-from-str-differs", "SSCChart.from_str(str(chart)) = %s" % show_items(cc.proj_items(c2)))
    return True


def norm_ssc(o):
    out = {"items": o["items"], "charts": []}
    for ch in o["charts"]:
        keys = [uncps(e["k"]) for e in ch]
        nk = "NOTES" if "NOTES" in keys else ("NOTES2" if "NOTES2" in keys else None)
        if nk is None:
            out["charts"].append(ch)
        else:
            out["charts"].append([e for e in ch if uncps(e["k"]) != nk] + [e for e in ch if uncps(e["k"]) == nk])
    return out


def params_match(fmt, got, exp):
    if len(got) != len(exp):
        return False
    for g, e in zip(got, exp):
        if fmt == "sm" and uncps(e[0]) == "NOTES" and len(g) == len(e) and len(e) >= 7:
            if g[0] != e[0] or g[7:] != e[7:]:
                return False
            for a, b in zip(g[1:7], e[1:7]):
                if uncps(a).strip() != uncps(b).strip():
                    return False
        elif g != e:
            return False
    return True


def show_items(items):
    return [(uncps(e["k"]), uncps(e["v"])) for e in items]


def show_obj(o, fmt):
    if fmt == "sm":
        return {"items": show_items(o["items"]),
                "charts": [([uncps(f) for f in c["fields"]], [uncps(x) for x in c["extra"]]) for c in o["charts"]]}
    return {"items": show_items(o["items"]), "charts": [show_items(c) for c in o["charts"]]}


def show_params(ps):
    return [[uncps(c) for c in p] for p in ps]


# ---- C2S: random edit histories on real objects ---------------------------------------------------

def edit_sm(rng, sf, nops):
    from simfile.sm import SMChart
    attrs = ["title", "artist", "stops", "bgchanges", "attacks", "displaybpm", "offset", "bpms"]
    for _ in range(nops):
        r = rng.random()
        if r < 0.012:
            # every property deleted (one by one, or at once): a simfile of charts only, or an empty one, is a simfile
            if rng.random() < 0.5:
                for k in list(sf.keys()):
                    del sf[k]
            else:
                sf.clear()
        elif r < 0.30:
            k = rng.choice(list(sf.keys())) if sf and rng.random() < 0.5 else cc.rand_key(rng)
            if k == "NOTES":
                continue
            sf[k] = cc.rand_value(rng) if rng.random() < 0.93 else None
        elif r < 0.42:
            setattr(sf, rng.choice(attrs), cc.rand_value(rng))
        elif r < 0.50 and sf:
            del sf[rng.choice(list(sf.keys()))]
        elif r < 0.55:
            a = rng.choice(attrs)
            if getattr(sf, a) is not None:
                delattr(sf, a)
        elif r < 0.65 and len(sf.charts) < 6:
            c = new_sm_chart(rng, 6)
            fix_sm_chart(rng, c)
            sf.charts.insert(rng.randint(0, len(sf.charts)), c)
        elif r < 0.70 and sf.charts:
            sf.charts.pop(rng.randrange(len(sf.charts)))
        elif r < 0.75 and len(sf.charts) >= 2:
            i, j = rng.sample(range(len(sf.charts)), 2)
            sf.charts[i], sf.charts[j] = sf.charts[j], sf.charts[i]
        elif r < 0.80 and sf.charts:
            c = new_sm_chart(rng, 5)
            fix_sm_chart(rng, c)
            sf.charts[rng.randrange(len(sf.charts))] = c
        elif r < 0.93 and sf.charts:
            c = rng.choice(sf.charts)
            f = rng.choice(["stepstype", "description", "difficulty", "meter", "radarvalues", "notes"])
            v = cc.rand_value(rng).strip()
            if rng.random() < 0.5:
                setattr(c, f, v)
            else:
                c[f.upper()] = v
            fix_sm_chart(rng, c)
        elif sf.charts:
            c = rng.choice(sf.charts)
            if isinstance(c.extradata, list) and rng.random() < 0.5:
                # edit the list of extra components IN PLACE (append / replace / remove)
                q = rng.random()
                if q < 0.4 or not c.extradata:
                    c.extradata.append(cc.rand_value(rng, 6))
                elif q < 0.7:
                    c.extradata[rng.randrange(len(c.extradata))] = cc.rand_value(rng, 6)
                else:
                    c.extradata.pop(rng.randrange(len(c.extradata)))
            else:
                c.extradata = [cc.rand_value(rng, 6) for _ in range(rng.randint(0, 3))] or None
            fix_sm_chart(rng, c)


def new_sm_chart(rng, n):
    """a chart from blank(), from six components, or from an EMPTY chart object whose six fields are then
    assigned one by one in any order (the documented order of the fields in the text is no matter of history)"""
    from simfile.sm import SMChart
    r = rng.random()
    if r < 0.3:
        return SMChart.blank()
    vals = [cc.rand_value(rng, n).strip() for _ in range(6)]
    if rng.random() < 0.3:
        # the words StepMania itself uses in these fields (any combination of them is just six strings)
        words = [["dance-single", "dance-double", "pump-single", "lights-cabinet"],
                 ["Challenge", "challenge", "SMANIAC", "smaniac", "Hard", "", "K. Ward", "Edit"],
                 ["Beginner", "Easy", "Medium", "Hard", "hard", "HARD", "Challenge", "Edit", "Heavy", "Expert"],
                 ["1", "10", "0", "99"], ["0,0,0,0,0", "0.5,0.5,0.5,0.5,0.5"]]
        for i in range(5):
            if rng.random() < 0.7:
                vals[i] = rng.choice(words[i])
    if r < 0.7:
        return SMChart.from_msd(vals)
    c = SMChart()
    names = ["stepstype", "description", "difficulty", "meter", "radarvalues", "notes"]
    for i in rng.sample(range(6), 6):
        if rng.random() < 0.5:
            setattr(c, names[i], vals[i])
        else:
            c[names[i].upper()] = vals[i]
    return c


def fix_sm_chart(rng, c):
    """keep the chart inside the property's domain: fields equal their strip(), note data does
    not start with '#', extra components outside the listed dependency gaps"""
    if re_lead_hash(c.notes):
        c.notes = "0" + c.notes
    if c.extradata:
        keep = c.extradata
        ex = []
        prev_nl = True   # the note data component ends in a line break
        for x in c.extradata:
            if prev_nl and re_lead_hash(x):
                x = "e" + x
            ex.append(x)
            prev_nl = x.endswith(("\n", "\r")) or (x == "" and prev_nl)
        keep[:] = ex                 # in place: the chart keeps the same list object


def re_lead_hash(x):
    i = 0
    while i < len(x) and x[i] in ":;\\":
        i += 1
    return i < len(x) and x[i] == "#"


def edit_ssc(rng, sf, nops):
    from simfile.ssc import SSCChart
    attrs = ["title", "artist", "version", "bgchanges", "attacks", "displaybpm", "labels"]
    cattrs = ["stepstype", "credit", "chartname", "attacks", "displaybpm", "bpms", "radarvalues", "description", "difficulty", "meter"]
    for _ in range(nops):
        r = rng.random()
        if r < 0.01:
            for k in list(sf.keys()):
                del sf[k]
        elif r < 0.03:
            # VERSION values a reader might interpret (old, current, future, exponent form): still just a value
            sf["VERSION"] = rng.choice(["0.5", "0.53", "0.58", "0.59", "0.69", "0.7", "0.70", "0.83", "1", "0", "1e-3", "2.0"])
            if rng.random() < 0.5:
                sf.move_to_end("VERSION", last=False)
        elif r < 0.22:
            k = rng.choice(list(sf.keys())) if sf and rng.random() < 0.5 else cc.rand_key(rng, forbid=("NOTEDATA",))
            if k == "NOTEDATA":
                continue
            sf[k] = cc.rand_value(rng) if rng.random() < 0.93 else None
        elif r < 0.30:
            setattr(sf, rng.choice(attrs), cc.rand_value(rng))
        elif r < 0.36 and sf:
            del sf[rng.choice(list(sf.keys()))]
        elif r < 0.46 and len(sf.charts) < 5:
            if rng.random() < 0.4:
                c = SSCChart.blank()
            else:
                c = SSCChart()
                c[rng.choice(["NOTES", "NOTES2"])] = cc.rand_value(rng, 6)
            sf.charts.insert(rng.randint(0, len(sf.charts)), c)
        elif r < 0.50 and sf.charts:
            sf.charts.pop(rng.randrange(len(sf.charts)))
        elif r < 0.54 and len(sf.charts) >= 2:
            i, j = rng.sample(range(len(sf.charts)), 2)
            sf.charts[i], sf.charts[j] = sf.charts[j], sf.charts[i]
        elif sf.charts:
            c = rng.choice(sf.charts)
            q = rng.random()
            nk = "NOTES" if "NOTES" in c else "NOTES2"
            if q < 0.35:
                k = rng.choice(list(c.keys())) if rng.random() < 0.5 else cc.rand_key(rng, forbid=("NOTEDATA", "NOTES", "NOTES2"))
                if k in ("NOTEDATA",) or (k in ("NOTES", "NOTES2") and k != nk):
                    continue
                # values equal to (and the same object as) the note data on purpose
                v = rng.choice([c[nk], "", cc.rand_value(rng), cc.rand_value(rng, 1)])
                if v is None:
                    v = ""
                c[k] = v if rng.random() < 0.95 or k == nk else None
            elif q < 0.55:
                setattr(c, rng.choice(cattrs), rng.choice([c[nk] or "", cc.rand_value(rng)]))
            elif q < 0.65:
                c.notes = rng.choice(["", "0", cc.rand_value(rng), cc.rand_value(rng, 1)])
            elif q < 0.80:
                ks = [k for k in c.keys() if k != nk]
                if ks:
                    del c[rng.choice(ks)]
            elif q < 0.86:
                # move the note data to another position: delete and re-insert
                v = c[nk]
                del c[nk]
                c[nk if rng.random() < 0.7 else ("NOTES2" if nk == "NOTES" else "NOTES")] = v
            elif q < 0.94:
                # rename the note data in three steps, passing through a state with BOTH spellings: copy it under the
                # other spelling, (maybe) add a property meanwhile, then delete the old spelling
                other = "NOTES2" if nk == "NOTES" else "NOTES"
                c[other] = c[nk]
                if rng.random() < 0.7:
                    c[cc.rand_key(rng, forbid=("NOTEDATA", "NOTES", "NOTES2"))] = cc.rand_value(rng)
                if rng.random() < 0.3:
                    setattr(c, rng.choice(cattrs), cc.rand_value(rng))
                if rng.random() < 0.5:
                    del c[nk]
                else:
                    c.pop(nk)
            else:
                ks = list(c.keys())
                if len(ks) > 1:
                    c.move_to_end(rng.choice(ks))


def tweak_after_serialize(rng, sf, fmt):
    """serialize, make ONE small edit, (the caller serializes again): what was written before must not stick"""
    try:
        str(sf)
        [str(c) for c in sf.charts]
    except Exception:  # noqa
        return
    r = rng.random()
    if fmt == "sm":
        cs = [c for c in sf.charts]
        if cs and r < 0.45:
            c = rng.choice(cs)
            if isinstance(c.extradata, list) and c.extradata:
                q = rng.random()
                if q < 0.5:
                    c.extradata.append("tail" + cc.rand_value(rng, 3).replace("#", ""))
                elif q < 0.8:
                    c.extradata[-1] = "replaced"
                else:
                    c.extradata.pop()
            else:
                c.extradata = ["added"]
        elif cs and r < 0.7:
            setattr(rng.choice(cs), rng.choice(["meter", "description", "notes"]), rng.choice(["7", "d", "0001"]))
        else:
            sf[rng.choice(list(sf.keys()) or ["TITLE"])] = cc.rand_value(rng, 5)
    else:
        cs = [c for c in sf.charts if ("NOTES" in c) != ("NOTES2" in c)]
        if cs and r < 0.4:
            c = rng.choice(cs)                      # move the note data to the other key, same value
            old = "NOTES" if "NOTES" in c else "NOTES2"
            c["NOTES2" if old == "NOTES" else "NOTES"] = c.pop(old)
        elif cs and r < 0.7:
            c = rng.choice(cs)
            k = rng.choice([k for k in c.keys()])
            c[k] = rng.choice(["", "x", c.get("NOTES") or c.get("NOTES2") or ""])
        else:
            sf[rng.choice(list(sf.keys()) or ["TITLE"])] = cc.rand_value(rng, 5)


def starts(fmt):
    import simfile
    from simfile.sm import SMSimfile
    from simfile.ssc import SSCSimfile
    cls = SMSimfile if fmt == "sm" else SSCSimfile
    out = [("blank", lambda: cls.blank()), ("empty", lambda: cls(string=""))]
    for path in cc.corpus_files():
        if path.lower().endswith("." + fmt):
            out.append(("corpus:" + path.split("/")[-1], lambda p=path: simfile.open(p)))
    return out


def c2s(ctx, fmt, ntraces, maxops):
    rng = random.Random(ctx.seed * 31 + (1 if fmt == "sm" else 2))
    st = starts(fmt)
    recs = []
    meta = {}
    for i in range(ntraces):
        name, mk = st[i % len(st)] if i < 3 * len(st) else rng.choice(st[:2] + st)
        try:
            sf = mk()
        except Exception as e:  # noqa
            raise core.MachineryError("cannot create start object %s: %r" % (name, e))
        nops = 0 if i < len(st) else rng.randint(1, maxops)
        hist_seed = rng.randrange(1 << 30)
        hrng = random.Random(hist_seed)
        if nops >= 2 and i % 2 == 0:
            # serialize in the middle of the history (a read must not influence what is written later)
            first = hrng.randint(1, nops - 1)
            (edit_sm if fmt == "sm" else edit_ssc)(hrng, sf, first)
            try:
                str(sf)
                [str(c) for c in sf.charts]
            except Exception:  # noqa
                pass
            (edit_sm if fmt == "sm" else edit_ssc)(hrng, sf, nops - first)
        else:
            (edit_sm if fmt == "sm" else edit_ssc)(hrng, sf, nops)
        if i % 3 == 1:
            tweak_after_serialize(hrng, sf, fmt)
        rec, text = cc.ser_record(sf, i)
        recs.append(rec)
        meta[i] = {"mode": "c2s", "fmt": fmt, "start": name, "nops": nops, "hist_seed": hist_seed, "i": i}
    # one long value with an escaped character on / next to buffer-sized offsets of the emitted text
    brng = random.Random(ctx.seed * 13 + 5)
    for sf, info in cc.boundary_objects(fmt, brng, range(-3, 4) if ctx.quick else range(-8, 9)):
        i = len(recs)
        rec, text = cc.ser_record(sf, i)
        recs.append(rec)
        meta[i] = dict(info, mode="boundary", fmt=fmt, start="boundary", nops=1, seed=ctx.seed)
    verdict = cc.validate(ctx, recs)
    pid = "C01" if fmt == "sm" else "C02"
    excluded = 0
    for rec in recs:
        cl = verdict[rec["id"]]
        ctx.traces += 1
        ctx.evaluations += 1
        if cl.startswith("domain:"):
            excluded += 1
            continue
        if cl.startswith("known:"):
            ctx.violation("%s:%s" % (pid, cl[6:]), "known dependency gap: %s" % cl[6:], meta[rec["id"]])
            continue
        txt = uncps(rec["text"]) if rec["level"] == "text" else None
        if txt is not None and any(c in txt for c in "\\:;") or meta[rec["id"]]["nops"] > 0:
            ctx.nontrivial_add(json.dumps(rec["obj"], sort_keys=True))
        if cl:
            key = cl
            if cl == "serialize-raised":
                key = "serialize-raised:" + rec["serst"]
            ctx.violation("%s:%s" % (pid, key),
                          "recorded %s cycle rejected (%s): start %s after %d edits; object %s; text %r" % (
                              fmt, cl, meta[rec["id"]]["start"], meta[rec["id"]]["nops"],
                              str(show_obj(rec["obj"], fmt))[:400] if rec["level"] == "text" else "(elided)",
                              (txt or "")[:300]),
                          meta[rec["id"]])
    ctx.notes["c2s_excluded_by_spec_domain_predicate"] = ctx.notes.get("c2s_excluded_by_spec_domain_predicate", 0) + excluded
    if recs:
        r = recs[len(recs) // 2]
        ctx.sample({"c2s_record": {k: (v if k not in ("text",) else uncps(v)[:200]) for k, v in r.items() if k not in ("obj", "re", "params")}})


def replay_c2s(case):
    fmt = case["fmt"]
    for name, mk in starts(fmt):
        if name == case["start"]:
            sf = mk()
            hrng = random.Random(case["hist_seed"])
            if case["nops"] >= 2 and case.get("i", 1) % 2 == 0:
                first = hrng.randint(1, case["nops"] - 1)
                (edit_sm if fmt == "sm" else edit_ssc)(hrng, sf, first)
                try:
                    str(sf)
                    [str(c) for c in sf.charts]
                except Exception:  # noqa
                    pass
                (edit_sm if fmt == "sm" else edit_ssc)(hrng, sf, case["nops"] - first)
            else:
                (edit_sm if fmt == "sm" else edit_ssc)(hrng, sf, case["nops"])
            if case.get("i", 0) % 3 == 1:
                tweak_after_serialize(hrng, sf, fmt)
            return sf
    raise core.MachineryError("unknown start " + case["start"])


# ---- entry ----------------------------------------------------------------------------------------

def run_fmt(ctx, fmt):
    quick = ctx.quick
    cfgs = configs(fmt, quick)
    jobs = [dict(module="MC_Codec", cfg=mc_cfg(*args, True), dirs=cc.DIRS, workers=6,
                 timeout=3000, heap="3g") for _, args in cfgs]
    results = tlc.run_many(jobs, parallel=3)
    pid = "C01" if fmt == "sm" else "C02"
    n_s2c = 0
    n_gap = 0
    for (name, args), res in zip(cfgs, results):
        if res.invariant_violated:
            ctx.violation("%s:model:%s" % (pid, res.invariant_violated),
                          "the specification's own serializer/parser rules violate %s in config %s:\n%s" % (
                              res.invariant_violated, name, (res.error_text or "")[:1500]),
                          {"mode": "model", "config": name})
            continue
        tlc.require_ok(res, "MC_Codec " + name)
        ctx.add_tlc("MC_Codec %s/%s" % (fmt, name), res)
        seen = set()
        jobs2 = []
        for rec in res.printed:
            h = json.dumps(rec["obj"], sort_keys=True)
            if h in seen:
                continue
            seen.add(h)
            for v in (["fresh"] if fmt == "sm" else ["fresh", "share"]):
                jobs2.append((fmt, rec, v))
        for (f_, rec, v), (r, viols) in zip(jobs2, core.pmap(s2c_job, jobs2)):
            for key, what, case in viols:
                ctx.violation(key, what, case)
            if r is False:
                n_gap += 1
            else:
                n_s2c += 1
                ctx.nontrivial_add((fmt, v, json.dumps(rec["obj"], sort_keys=True)))
        if res.printed:
            mid = res.printed[len(res.printed) // 2]
            ctx.sample({"s2c_object": show_obj(mid["obj"], fmt), "spec_text": uncps(mid["text"]) if not mid["gap"] else None})
    ctx.traces += n_s2c
    ctx.evaluations += n_s2c
    ctx.notes["s2c_objects_replayed"] = n_s2c
    ctx.notes["model_objects_in_escape_gap_excluded"] = n_gap
    if n_s2c == 0:
        raise core.MachineryError("vacuity: no object outside the escape gaps was replayed")
    c2s(ctx, fmt, 400 if quick else 6000, 30 if quick else 200)
    ctx.exhaustive = True
    ctx.rule = ("S2C: every distinct object reachable by edit actions in the bounded MC_Codec configurations "
                "(outside the escaping gaps, decided by the spec's predicate) x value-identity variants; "
                "C2S: serialize/reparse cycles after random edit histories from blank(), corpus and empty "
                "objects; non-trivial = edited or containing an MSD metacharacter, counted per distinct object")
    ctx.assumptions += [
        "msdparser's tokenizer is the trusted base; its MSD.tla model is bound to it exhaustively by check C03",
        "keys are ASCII upper-case (plus uncased non-ASCII); letter-case mapping outside ASCII is not modelled",
        "texts above 2500 characters are validated at parameter level (msdparser's reading, long values elided consistently)",
    ]


def run(ctx):
    run_fmt(ctx, "sm")


def replay(rec):
    case = rec["case"]
    print(rec.get("what"))
    if case.get("mode") == "c2s":
        sf = replay_c2s(case)
    elif case.get("mode") == "s2c":
        sf = cc.build_sm(case["obj"]) if case["fmt"] == "sm" else cc.build_ssc(case["obj"], share=case["variant"] == "share")
    else:
        print("model-level violation: re-run the check")
        return 1
    try:
        text = str(sf)
        print("str():", repr(text)[:2000])
        re_ = type(sf)(string=text)
        print("reparsed == original:", re_ == sf, "| second str() equal:", str(re_) == text)
    except Exception as e:  # noqa
        print("raised:", repr(e))
    return 1
