"""Shared by C07/C08 (and used by C09/C10/C13 for note streams): projections, generators."""
import os
import random
from fractions import Fraction

from harness import core

DIRS = ["notedata"]
NOTE_CHARS = "1234AFKLM"


def proj_note(n):
    b = Fraction(n.beat)
    return {"p": n.player, "n": b.numerator, "d": b.denominator, "c": n.column,
            "t": ord(n.note_type.value), "k": -1 if n.keysound_index is None else n.keysound_index}


def build_note(d):
    from simfile.notes import Note, NoteType
    from simfile.timing import Beat
    return Note(beat=Beat(d["n"], d["d"]), column=d["c"], note_type=NoteType(chr(d["t"])),
                player=d["p"], keysound_index=None if d["k"] < 0 else d["k"])


def read_notes(nd, mode):
    """all notes of a NoteData object, after one of several ITERATION HISTORIES on the same object
    (an abandoned first iteration, a peek, two iterators running against each other, a repeated read):
    whatever an earlier iteration leaves behind must not change what a full iteration yields.
    -> (notes, consistent)"""
    import itertools
    mode = mode % 6
    ok = True
    if mode == 1:
        next(iter(nd), None)                     # a peek; the iterator is dropped
    elif mode == 2:
        for k, _ in enumerate(nd):               # an abandoned loop
            if k >= 2:
                break
    elif mode == 3:
        any(False for _ in itertools.islice(nd, 1))
        first = list(itertools.islice(nd, 3))
        ok = first == list(nd)[:3]
    elif mode == 4:
        it1 = iter(nd)                           # a second iterator overtakes the first
        head = list(itertools.islice(it1, 1))
        full = list(nd)
        ok = head + list(it1) == full
    elif mode == 5:
        pairs = list(zip(nd, itertools.islice(nd, 1, None)))
        full = list(nd)
        ok = pairs == list(zip(full, full[1:]))
    notes = list(nd)
    if mode in (0, 3) and list(nd) != notes:
        ok = False
    return notes, ok


def text_mode(text):
    import zlib
    return zlib.crc32(text.encode("utf-8", "surrogatepass"))


def show_note(d):
    return "p%d %d/%d c%d %s%s" % (d["p"], d["n"], d["d"], d["c"], chr(d["t"]), "" if d["k"] < 0 else "[%d]" % d["k"])


ROWS = [1, 2, 3, 4, 4, 4, 5, 8, 8, 12, 16, 16, 24, 32, 48, 64, 192, 256, 384]


def gen_text(rng, max_chars=3500):
    """a well-formed note data text as in C07's quantifier"""
    cols = rng.choice([1, 2, 3, 4, 4, 4, 5, 6, 8, 10, 16])
    players = rng.choice([1, 1, 1, 2, 3])
    nl = rng.choice(["\n", "\n", "\r\n"])
    density = rng.choice([0.05, 0.2, 0.5, 0.9])
    ksp = rng.choice([0.0, 0.0, 0.2, 0.8])
    parts = []
    budget = max_chars
    for p in range(players):
        measures = []
        for m in range(rng.randint(1, 5)):
            rows = rng.choice(ROWS) if rng.random() < 0.8 else rng.randint(1, 40)
            if rows * (cols + 2) > budget:
                rows = max(1, min(rows, budget // (cols + 2)))
            lines = []
            for r in range(rows):
                s = ""
                for c in range(cols):
                    if rng.random() < density:
                        s += rng.choice(NOTE_CHARS)
                        if rng.random() < ksp:
                            s += "[%d]" % rng.choice([0, 1, 7, 12, 255, 9999])
                    else:
                        s += "0"
                        if rng.random() < ksp / 3:  # a keysound bracket on an empty cell: no note, no after-effect
                            s += "[%d]" % rng.choice([0, 7, 12, 255])
                pad = rng.random()
                if pad < 0.15:
                    s = rng.choice([" ", "  ", "\t"]) + s
                if 0.1 < pad < 0.25:
                    s = s + rng.choice([" ", "\t", "  "])
                lines.append(s)
            budget -= rows * (cols + 2)
            body = nl.join(lines)
            r = rng.random()
            if r < 0.6:
                body = body + nl
            if r < 0.2:
                body = nl + body
            if 0.5 < r < 0.6:
                body = nl + " " + nl + body + nl + nl
            measures.append(body)
            if budget <= 0:
                break
        sep = rng.choice(["," + nl, ",", nl + "," + nl])
        parts.append(sep.join(measures))
        if budget <= 0:
            break
    # '&' stands on a line of its own (the quantifier's form)
    return rng.choice([nl + "&" + nl, nl + "&" + nl + nl, nl + " &" + nl]).join(p.rstrip("\r\n") if False else p for p in parts)


def corpus_charts():
    """(label, note data text) for every chart of every corpus file"""
    import simfile
    out = []
    base = os.path.join(core.REPO, "testdata")
    for root, _, files in sorted(os.walk(base)):
        for f in sorted(files):
            if f.lower().endswith((".sm", ".ssc")):
                sf = simfile.open(os.path.join(root, f))
                for i, ch in enumerate(sf.charts):
                    if ch.notes:
                        out.append(("%s#%d" % (f, i), ch.notes))
    return out


def windows(text, size):
    """cut a single-player chart into windows of `size` measures (each a well-formed text)"""
    ms = text.split(",")
    return [",".join(ms[i:i + size]) for i in range(0, len(ms), size)]


def gen_stream(rng, max_chars=5000):
    """a position-sorted stream as in C08's quantifier -> (notes as dicts, columns); the text it
    encodes to stays below about max_chars characters (TLC decodes it again)"""
    from math import gcd
    cols = rng.choice([1, 2, 3, 4, 4, 4, 6, 8, 16])
    players = sorted(rng.sample([0, 1, 2], rng.choice([1, 1, 1, 2, 3])))
    if rng.random() < 0.6:
        players = [0]
    dens = rng.choice([[1], [1, 2, 4], [1, 2, 3, 4, 6, 8, 12, 16, 48], [1, 3, 5], [7, 11], [1, 2, 4, 13], [48, 64], [1000], [1, 4, 9, 10],
                       [3, 64], [5, 48], [1, 192]])
    out = []
    budget = max_chars - 40 * (cols + 1)
    for p in players:
        positions = set()
        for _ in range(rng.choice([0, 1, 2, 5, 12, 30])):
            d = rng.choice(dens)
            beat = Fraction(rng.randint(0, 20 * d), d)
            positions.add((beat, rng.randrange(cols)))
        by_measure = {}
        for b, c in sorted(positions):
            by_measure.setdefault(b // 4, []).append((b, c))
        for m, lst in sorted(by_measure.items()):
            q = 1
            keep = []
            for b, c in lst:
                nq = q * b.denominator // gcd(q, b.denominator)
                if 4 * nq * (cols + 1) > budget:
                    continue
                q = nq
                keep.append((b, c))
            if keep:
                budget -= 4 * q * (cols + 1)
            for b, c in keep:
                out.append({"p": p, "n": b.numerator, "d": b.denominator, "c": c,
                            "t": ord(rng.choice(NOTE_CHARS)),
                            "k": rng.choice([-1, -1, -1, 0, 5, 12, 300])})
    return out, cols
