# setup: verifies the pre-installed tools are present, parses every TLA+ module with SANY
# and byte-compiles the harness.  Installs nothing; needs no network.
.PHONY: setup sany
setup: sany
	@/venv/bin/python -c "import simfile, msdparser, fs" 2>/dev/null || (echo "repo venv missing deps" && exit 1)
	@python3-vt -c "import jsonschema" || (echo "python3-vt lacks jsonschema" && exit 1)
	@/venv/bin/python -m compileall -q harness checks >/dev/null
	@mkdir -p evidence replays
	@echo setup ok

sany:
	@/venv/bin/python -m harness.sanyall
