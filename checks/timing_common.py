"""Shared by C11 (beat -> time), C12 (time -> beat) and C13 (hittability / time_notes):
timing-data generators, construction of the real engine, recording of queries, numeric
evaluation of the linear forms TLC returns."""
import json
import os
import random
from decimal import Decimal
from fractions import Fraction

from harness import core, tlc, trace

DIRS = ["timing"]
Q = 26880          # positions per beat (768 * 5 * 7: rows per measure of 5, 7, 10 ... stay integral)
TICK = Q // 48
U = 8192 * 35      # smooth time unit: 1/286720 s (one q at 640 BPM)
SMOOTH_BPM = {40: 16, 80: 8, 160: 4, 320: 2, 640: 1}      # bpm -> duration of one q in U
TAGS = list(range(7))


def beat_of(q):
    from simfile.timing import Beat
    return Beat(Fraction(q, Q))


def dec3(fr):
    """Fraction -> decimal string with at most 6 places (exact for the values used)"""
    d = Decimal(fr.numerator) / Decimal(fr.denominator)
    s = format(d, "f")
    return s


class TD:
    """timing data in the harness: positions in q; values as Decimal strings"""

    def __init__(self, bpms, stops=(), delays=(), warps=(), offset="0"):
        self.bpms = list(bpms)        # [(q, "bpm")]
        self.stops = list(stops)      # [(q, "seconds")]
        self.delays = list(delays)
        self.warps = list(warps)      # [(q, "beats")]  (decimal string with <= 3 places)
        self.offset = offset

    def smooth(self):
        try:
            ok = all(Decimal(v) == int(Decimal(v)) and int(Decimal(v)) in SMOOTH_BPM for _, v in self.bpms)
            ok = ok and all((Fraction(Decimal(v)) * U).denominator == 1 and (Fraction(Decimal(v)) * U) % 2 == 0
                            for _, v in self.stops + self.delays)
            ok = ok and (Fraction(Decimal(self.offset)) * U).denominator == 1
            return ok
        except Exception:
            return False

    def spec(self):
        sm = self.smooth()
        return {"bpms": [{"b": q, "u": SMOOTH_BPM[int(Decimal(v))] if sm else 0} for q, v in self.bpms],
                "stops": [{"b": q, "u": int(Fraction(Decimal(v)) * U) if sm else 0} for q, v in self.stops],
                "delays": [{"b": q, "u": int(Fraction(Decimal(v)) * U) if sm else 0} for q, v in self.delays],
                "warps": [{"b": q, "ml": int(Decimal(v) * 1000)} for q, v in self.warps]}

    def engine(self, kind="ssc", build=True):
        from simfile.ssc import SSCSimfile
        from simfile.timing import TimingData
        from simfile.timing.engine import TimingEngine
        sf = SSCSimfile.blank()

        def fmt(lst):
            return ",\n".join("%s=%s" % (format(Fraction(q, Q).numerator / Fraction(q, Q).denominator, ".3f"), v) for q, v in lst)
        sf.bpms = fmt(self.bpms)
        sf.stops = fmt(self.stops)
        sf.delays = fmt(self.delays)
        sf.warps = fmt(self.warps)
        sf.offset = self.offset
        # the simfile's OTHER segment lists (fakes, speeds, scrolls, labels, combos, tick counts, time signatures) say nothing
        # about when a beat happens or whether it can be hit: half of the simfiles carry some
        import zlib
        h = zlib.crc32(repr((self.bpms, self.stops, self.delays, self.warps, self.offset)).encode())
        if h % 2:
            first = self.bpms[0][0] if self.bpms else 0
            spans = [q for q, _ in (self.stops + self.warps + self.bpms)][:3] or [first]
            sf["FAKES"] = ",".join("%.3f=%s" % (q / Q, "2.000") for q in spans)
            sf["SPEEDS"] = "0.000=2.000=1.000=0,4.000=0.500=2.000=1"
            sf["SCROLLS"] = "0.000=0.500,2.000=0.000,6.000=-1.000"
            sf["LABELS"] = "0.000=Intro,4.000=Warp here"
            sf["COMBOS"] = "0.000=2=2"
            sf["TICKCOUNTS"] = "0.000=8"
            sf["TIMESIGNATURES"] = "0.000=3=4,6.000=7=8"
        tdata = TimingData(sf)
        if not build:
            return None, tdata
        return TimingEngine(tdata), tdata

    def value(self, form):
        """exact rational time of a linear form"""
        t = -Fraction(Decimal(self.offset))
        for k, n in enumerate(form["seg"]):
            t += Fraction(n, Q) * 60 / Fraction(Decimal(self.bpms[k][1]))
        for k, h in enumerate(form["st"]):
            t += Fraction(h, 2) * Fraction(Decimal(self.stops[k][1]))
        for k, h in enumerate(form["dl"]):
            t += Fraction(h, 2) * Fraction(Decimal(self.delays[k][1]))
        return t

    def show(self):
        def f(lst):
            return ",".join("%s=%s" % (str(Fraction(q, Q)), v) for q, v in lst)
        return "bpms[%s] stops[%s] delays[%s] warps[%s] offset %s" % (f(self.bpms), f(self.stops), f(self.delays), f(self.warps), self.offset)

    def to_json(self):
        return {"bpms": self.bpms, "stops": self.stops, "delays": self.delays, "warps": self.warps, "offset": self.offset}

    @staticmethod
    def from_json(d):
        return TD([tuple(x) for x in d["bpms"]], [tuple(x) for x in d["stops"]], [tuple(x) for x in d["delays"]],
                  [tuple(x) for x in d["warps"]], d["offset"])

    def event_positions(self):
        ps = {0}
        for lst in (self.bpms, self.stops, self.delays):
            ps |= {q for q, _ in lst}
        for q, v in self.warps:
            ps.add(q)
            ln = TICK * int(round(Fraction(Decimal(v)) * 48))      # harness-side only to choose probe positions
            ps.add(q + ln)
        return sorted(ps)


_KEEP_ALIVE = []
# an unrelated timeline: odd BPM, a warp over beats 0-8, a stop and a delay inside it
BYSTANDER = TD([(0, "333"), (2 * Q, "77.7")], stops=[(Q, "1.5")], delays=[(3 * Q, "0.75")], warps=[(0, "8"), (20 * Q, "2")], offset="0.321")


def from_model(tdm, offset="0"):
    """MC_Timing's td (smooth) -> TD"""
    inv = {u: b for b, u in SMOOTH_BPM.items()}
    return TD([(e["b"], str(inv[e["u"]])) for e in tdm["bpms"]],
              [(e["b"], dec3(Fraction(e["u"], U))) for e in tdm["stops"]],
              [(e["b"], dec3(Fraction(e["u"], U))) for e in tdm["delays"]],
              [(e["b"], dec3(Fraction(e["len"], Q))) for e in tdm["warps"]], offset)


def gen_td(rng, smooth):
    """random timing data inside the properties' domain (coincidences forced often)"""
    nb = rng.choice([0, 1, 2, 4, 8])
    positions = sorted(rng.sample(range(1, 60 * 4), min(60 * 4 - 1, 14)))          # quarter beats
    pool = [p * Q // 4 for p in positions]
    if rng.random() < 0.3:
        pool += [rng.randrange(0, 40 * 48) * TICK for _ in range(6)]               # arbitrary ticks

    def pick(k, allow_zero=True):
        cand = list(pool) + ([0] if allow_zero else [])
        rng.shuffle(cand)
        return sorted(set(cand[:k]))
    if smooth:
        bv = lambda: str(rng.choice(list(SMOOTH_BPM)))                              # noqa
        pv = lambda: rng.choice(["0.5", "0.25", "1", "0.125", "2", "0.0625"])       # noqa
        off = rng.choice(["0", "0.5", "-0.25", "0.125", "-1", "0.009765625"])
    else:
        bv = lambda: rng.choice([str(rng.randint(1, 2000)), "%d.%03d" % (rng.randint(1, 1999), rng.randint(0, 999)),   # noqa
                                 "%d.%d" % (rng.randint(30, 400), rng.randint(0, 9)), "120", "150.5"])
        pv = lambda: rng.choice(["0.5", "0.25", "1.234", "0.001", "3", "0.333", "%d.%03d" % (rng.randint(0, 5), rng.randint(1, 999))])  # noqa
        off = rng.choice(["0", "0.009", "-0.25", "1.5", "-12.345", "0.000", "100"])
    bpms = [(0, bv())]
    last = bpms[0][1]
    for q in pick(nb, allow_zero=False):
        v = last if rng.random() < 0.25 else bv()          # redundant BPM changes on purpose
        bpms.append((q, v))
        last = v
    stops = [(q, pv()) for q in pick(rng.choice([0, 1, 2, 4]))]
    delays = [(q, pv()) for q in pick(rng.choice([0, 0, 1, 3]))]
    wl = lambda: rng.choice(["0.25", "0.5", "1", "2", "4", "0.333", "1.5", "0.021", "3.75", "0.75"])   # noqa
    warps = [(q, wl()) for q in pick(rng.choice([0, 1, 2, 3, 5]))]
    if rng.random() < 0.1:
        # a CROWDED warp: six to ten events (BPM changes, a stop, a delay) strictly inside one warp - they all share one time
        start = rng.choice([0, 2, 5]) * Q + rng.choice([0, 12]) * TICK
        n = rng.randint(6, 10)
        inner = [start + (k + 1) * rng.choice([1, 2, 6]) * TICK for k in range(n)]
        inner = sorted(set(inner))
        bpms = [(0, bpms[0][1])] + [(q, bv()) for q in inner]
        stops = [(inner[len(inner) // 2], pv())] if rng.random() < 0.5 else []
        delays = [(inner[1], pv())] if rng.random() < 0.4 else []
        warps = [(start, str((inner[-1] - start) // Q + 1))]
    return TD(bpms, stops, delays, warps, off)


def corpus_tds():
    """timing data of the corpus simfiles (simfile level and every SSC chart's split timing)"""
    import simfile
    from simfile.timing import TimingData
    out = []
    base = os.path.join(core.REPO, "testdata")
    for root, _, files in sorted(os.walk(base)):
        for f in sorted(files):
            if not f.lower().endswith((".sm", ".ssc")):
                continue
            sf = simfile.open(os.path.join(root, f))
            cands = [TimingData(sf)]
            for ch in sf.charts:
                try:
                    cands.append(TimingData(sf, ch))
                except Exception:  # noqa
                    pass
            seen = set()
            for tdata in cands:
                try:
                    def conv(bv):
                        return [(int(Fraction(e.beat) * Q), str(e.value)) for e in bv]
                    td = TD(conv(tdata.bpms), conv(tdata.stops), conv(tdata.delays), conv(tdata.warps), str(tdata.offset))
                except Exception:  # noqa
                    continue
                key = json.dumps(td.to_json())
                if key in seen or not td.bpms:
                    continue
                seen.add(key)
                if any(Decimal(v) <= 0 for _, v in td.bpms + td.stops + td.delays + td.warps):
                    continue       # negative BPMs / stops are outside the domain
                out.append((f, td))
    return out


def probe_positions(td, rng, extra=6):
    ps = set()
    for p in td.event_positions():
        ps |= {p - TICK, p - TICK // 2, p - TICK // 4, p - 7, p, p + 7, p + TICK // 4, p + TICK // 2, p + TICK}
    mx = max(td.event_positions())
    ps |= {-Q, -TICK, mx + Q, mx + 5 * TICK}
    ps |= {-4 * Q, -4 * Q - TICK, -12 * Q + Q // 2, -rng.randrange(4 * Q, 40 * Q)}        # measures before beat 0
    for _ in range(extra):
        ps.add(rng.randrange(-2 * Q, mx + 4 * Q))
    return sorted(ps)


def validate(ctx, recs):
    return trace.validate(ctx, "Trace_Timing", DIRS, recs, heap="3g")


def time_u(td, t):
    """engine float -> integer in U (relative to -offset), or None if not exact"""
    fr = (Fraction(t) + Fraction(Decimal(td.offset))) * U
    return int(fr) if fr.denominator == 1 and abs(fr) < 2 ** 30 else None


# ---- recording queries on the real engine ---------------------------------------------------------

def tag_enum(k):
    from simfile.timing.engine import EventTag
    return EventTag(k)


def q_of_beat(b):
    fr = Fraction(b) * Q
    return int(fr) if fr.denominator == 1 else None


def record(td, rng, kinds, rid, notes_text=None, max_probes=60):
    """-> trace record with the engine's answers (or a 'raised' marker)"""
    from simfile.notes import NoteData, NoteType
    from simfile.notes.timed import time_notes, UnhittableNotes
    sm = td.smooth()
    rec = {"id": rid, "td": td.spec(), "smooth": sm, "queries": [], "st": "ok"}
    try:
        from simfile.timing.engine import TimingEngine
        if rng.random() < 0.25:
            # history: ANOTHER TimingData parsed from the same texts is edited in place first (doubled first BPM,
            # extra stop / delay / warp at beat 0): lists must never be shared between TimingData objects
            from simfile.timing import Beat, BeatValue
            _, spoiled = td.engine(build=False)
            spoiled.bpms[0] = BeatValue(spoiled.bpms[0].beat, spoiled.bpms[0].value * 2)
            spoiled.bpms.append(BeatValue(Beat(1, 48), Decimal("777")))
            for lst in (spoiled.stops, spoiled.delays, spoiled.warps):
                lst.insert(0, BeatValue(Beat(0), Decimal("7")))
        _, tdata = td.engine(build=False)
        eng = None
        if rng.random() < 0.3:
            # history: the same TimingData object served an engine before one of its lists was completed in place
            lists = [n for n in ("stops", "delays", "warps", "bpms") if len(getattr(tdata, n)) > (1 if n == "bpms" else 0)]
            if lists:
                name = rng.choice(lists)
                lst = getattr(tdata, name)
                last = lst.pop()
                first_engine = TimingEngine(tdata)
                first_engine.time_at(beat_of(rng.choice(td.event_positions())))
                lst.append(last)
        eng = TimingEngine(tdata)
        if rng.random() < 0.3:
            # history: a second, unrelated engine is built AFTER this one and stays alive while this one is queried
            bystander, _ = BYSTANDER.engine()
            bystander.hittable(beat_of(Q))
            bystander.time_at(beat_of(12 * Q))
            _KEEP_ALIVE.append(bystander)
            del _KEEP_ALIVE[:-3]
    except Exception as e:  # noqa
        rec["st"] = "engine-raised:" + type(e).__name__
        return rec
    ps = probe_positions(td, rng)
    if len(ps) > max_probes:
        keep = set(rng.sample(ps, max_probes))
        ps = [p for p in ps if p in keep]
    qs = rec["queries"]

    def safe(fn):
        try:
            return fn()
        except Exception as e:  # noqa
            rec["st"] = "query-raised:" + type(e).__name__
            return None
    if "time" in kinds:
        order = [(p, tag) for p in ps for tag in (TAGS if rng.random() < 0.5 else [0, 4, 5, 6])]
        if rng.random() < 0.6:
            rng.shuffle(order)          # answers must not depend on the order of earlier queries
            order += rng.sample(order, min(len(order), 20))
        for p, tag in order:
            if True:
                t = safe(lambda: eng.time_at(beat_of(p), tag_enum(tag)))
                if t is None:
                    return rec
                tu = time_u(td, t) if sm else 0
                if sm and tu is None:
                    sm = False                  # not exactly representable: leave it to the numeric path
                qs.append({"k": "time", "b": p, "tag": tag, "t": tu or 0, "_f": float(t)})
            # default tag through the default argument
            t = safe(lambda: eng.time_at(beat_of(p)))
            if t is None:
                return rec
            qs.append({"k": "time", "b": p, "tag": 5, "t": (time_u(td, t) or 0) if sm else 0, "_f": float(t)})
    if "bpm" in kinds:
        for p in (rng.sample(ps, len(ps)) if rng.random() < 0.5 else ps):
            v = safe(lambda: eng.bpm_at(beat_of(p)))
            if v is None:
                return rec
            got = [i + 1 for i, (_, bv) in enumerate(td.bpms) if Decimal(bv) == Decimal(v)]
            qs.append({"k": "bpm", "b": p, "got": got or [0]})
    if "hit" in kinds:
        for p in (rng.sample(ps, len(ps)) if rng.random() < 0.5 else ps):
            v = safe(lambda: eng.hittable(beat_of(p)))
            if v is None:
                return rec
            qs.append({"k": "hit", "b": p, "got": bool(v)})
    # bursts: the different queries about ONE beat asked back to back in a random order (a lookup remembered from the
    # previous query - whatever its kind or tag - must not leak into the next one); recorded for the kinds this check judges
    if rng.random() < 0.6:
        evp = td.event_positions()
        for p in rng.sample(ps, min(len(ps), 10)) + rng.sample(evp, min(len(evp), 6)):
            burst = ["bpm", "hit", ("time", rng.choice([0, 1, 2, 3])), "hit", ("time", None), "bpm", "hit", ("time", rng.choice([4, 5, 6]))]
            rng.shuffle(burst)
            for b in burst:
                if b == "bpm":
                    v = safe(lambda: eng.bpm_at(beat_of(p)))
                    if v is None:
                        return rec
                    if "bpm" in kinds:
                        got = [i + 1 for i, (_, bv) in enumerate(td.bpms) if Decimal(bv) == Decimal(v)]
                        qs.append({"k": "bpm", "b": p, "got": got or [0]})
                elif b == "hit":
                    v = safe(lambda: eng.hittable(beat_of(p)))
                    if v is None:
                        return rec
                    if "hit" in kinds:
                        qs.append({"k": "hit", "b": p, "got": bool(v)})
                else:
                    tag = b[1]
                    t = safe(lambda: eng.time_at(beat_of(p)) if tag is None else eng.time_at(beat_of(p), tag_enum(tag)))
                    if t is None:
                        return rec
                    if "time" in kinds:
                        tu = time_u(td, t) if sm else 0
                        if sm and tu is None:
                            sm = False
                        qs.append({"k": "time", "b": p, "tag": 5 if tag is None else tag, "t": tu or 0, "_f": float(t)})
    if "beat" in kinds:
        def ask(t, tag):
            if tag is None:
                B = eng.beat_at(t)
                tag = 5
            else:
                B = eng.beat_at(t, tag_enum(tag))
            qb = q_of_beat(B)
            return tag, (qb if qb is not None else 1)
        # collect the asked times first, then ask in nested or in random order (with repeats): answers must not
        # depend on which queries came before
        asks = []
        for p in ps:
            for tag0 in (0, 5, 6):
                t = safe(lambda: eng.time_at(beat_of(p), tag_enum(tag0)))
                if t is None:
                    return rec
                for tag in (0, None, rng.choice([1, 2, 3, 4, 6])):
                    asks.append((t, tag, {"k": "beatsym", "b0": p, "tag0": tag0, "half": 0, "idx": 1}))
        for kind, lst, half, tg in (("stops", td.stops, 1, 5), ("delays", td.delays, 2, 3)):
            for idx, (p, v) in enumerate(lst):
                t0 = safe(lambda: eng.time_at(beat_of(p), tag_enum(tg)))
                if t0 is None:
                    return rec
                import math
                end = float(t0) + float(Decimal(v))          # the engine's own float for the end of this pause
                inside = [float(Fraction(t0) + Fraction(Decimal(v)) / 2)]
                if math.nextafter(float(t0), math.inf) < end:
                    # one float step after the start / before the end: still STRICTLY inside the pause
                    inside += [math.nextafter(float(t0), math.inf), math.nextafter(end, -math.inf)]
                for t in inside:
                    for tag in (0, None, 6):
                        asks.append((t, tag, {"k": "beatsym", "b0": p, "tag0": tg, "half": half, "idx": idx + 1}))
        if rng.random() < 0.5:
            rng.shuffle(asks)
            asks += rng.sample(asks, min(len(asks), 15))
        for t, tag, q in asks:
            r = safe(lambda: ask(t, tag))
            if r is None:
                return rec
            qs.append(dict(q, tag=r[0], B=r[1]))
        if sm:
            import math
            ends = [math.floor((Fraction(eng.time_at(beat_of(p))) + Fraction(Decimal(td.offset))) * U) for p in (ps[0], ps[-1])]
            lo, hi = min(ends), max(ends)
            if hi - lo > 2 ** 29:
                lo, hi = 0, 0
            for _ in range(40):
                tu = 35 * rng.randint(lo // 35 - 60, hi // 35 + 60)        # multiples of 1/8192 s: exact floats
                t = float(Fraction(tu, U) - Fraction(Decimal(td.offset)))
                for tag in (0, None):
                    r = safe(lambda: ask(t, tag))
                    if r is None:
                        return rec
                    qs.append({"k": "beatnum", "t": tu, "tag": r[0], "B": r[1]})
    if "notes" in kinds and notes_text is not None:
        nd = NoteData(notes_text)
        notes = list(nd)
        opts = {"fake": UnhittableNotes.TAP_TO_FAKE, "drop": UnhittableNotes.DROP_NOTE, "keep": UnhittableNotes.KEEP_NOTE}
        pn = []
        for x in notes:
            qb = q_of_beat(x.beat)
            if qb is None:
                return rec          # off the q grid: generator error
            pn.append({"b": qb, "c": x.column, "t": ord(x.note_type.value), "p": x.player,
                       "k": -1 if x.keysound_index is None else x.keysound_index})
        for oname, o in opts.items():
            out = safe(lambda: list(time_notes(nd, tdata, o)) if oname != "fake" or rng.random() < 0.5 else list(time_notes(nd, tdata)))
            if out is None:
                return rec
            pos = {}
            for i, x in enumerate(notes):
                pos[(x.player, x.beat, x.column)] = i
            o_recs = []
            for tn in out:
                y = tn.note
                i = pos.get((y.player, y.beat, y.column))
                if i is None:
                    o_recs.append({"i": 0, "t": ord(y.note_type.value), "same": False, "tm": 0, "_f": float(tn.time)})
                    continue
                x = notes[i]
                same = (y.beat == x.beat and y.column == x.column and y.player == x.player and y.keysound_index == x.keysound_index)
                o_recs.append({"i": i + 1, "t": ord(y.note_type.value), "same": bool(same),
                               "tm": (time_u(td, tn.time) or 0) if sm else 0, "_f": float(tn.time)})
            if sm and any(time_u(td, tn.time) is None for tn in out):
                sm = False                  # a float that is not an exact multiple of U: numeric path for this record
            qs.append({"k": "notes", "opt": oname, "notes": pn, "out": o_recs})
    if rec["smooth"] and not sm:
        unsmooth(rec)
    return rec


def unsmooth(rec):
    rec["smooth"] = False
    for e in rec["td"]["bpms"] + rec["td"]["stops"] + rec["td"]["delays"]:
        e["u"] = 0
    rec["queries"] = [q for q in rec["queries"] if q["k"] != "beatnum"]


def strip_private(rec):
    """the record as sent to TLC (harness-only fields removed)"""
    r = dict(rec)
    r["queries"] = []
    for q in rec["queries"]:
        q2 = {k: v for k, v in q.items() if not k.startswith("_")}
        if q["k"] == "notes":
            q2["out"] = [{k: v for k, v in o.items() if not k.startswith("_")} for o in q["out"]]
        r["queries"].append(q2)
    r.pop("st", None)
    return r


def judge(ctx, pid, recs, tds, verdict, label, tol=Fraction(1, 10 ** 9)):
    """turn verdicts into violations; evaluate the linear forms of non-smooth records numerically"""
    for rec in recs:
        td = tds[rec["id"]]
        case = {"mode": "td", "td": td.to_json()}
        n = len(rec["queries"])
        ctx.traces += 1
        ctx.evaluations += n
        if rec["st"] != "ok":
            ctx.violation("%s:%s" % (pid, rec["st"]), "%s on %s" % (rec["st"], td.show()), case)
            continue
        v = verdict[rec["id"]]
        if v["clause"].startswith("domain:"):
            ctx.notes["excluded_by_spec_domain_predicate"] = ctx.notes.get("excluded_by_spec_domain_predicate", 0) + 1
            continue
        if td.warps or td.stops or td.delays:
            ctx.nontrivial_add((label, json.dumps(td.to_json())))
        if v["clause"]:
            q = rec["queries"][v["at"] - 1]
            qq = {k: x for k, x in q.items() if k not in ("notes", "out")}
            ctx.violation("%s:%s" % (pid, v["clause"]),
                          "engine answer rejected (%s): query %s on %s" % (v["clause"], json.dumps(qq), td.show()), dict(case, query=qq))
            continue
        if not rec["smooth"]:
            forms = v["forms"]
            for k, q in enumerate(rec["queries"]):
                if q["k"] == "time":
                    exact = td.value(forms[k][0])
                    if abs(Fraction(q["_f"]) - exact) > tol:
                        ctx.violation("%s:time" % pid,
                                      "time_at(%s, tag %d) = %r, exact evaluation of the specification's linear form gives %s on %s" % (
                                          Fraction(q["b"], Q), q["tag"], q["_f"], float(exact), td.show()),
                                      dict(case, query={"k": "time", "b": q["b"], "tag": q["tag"]}))
                        break
                elif q["k"] == "notes":
                    for o, f in zip(q["out"], forms[k]):
                        exact = td.value(f)
                        if abs(Fraction(o["_f"]) - exact) > tol:
                            ctx.violation("%s:timed-notes-time" % pid,
                                          "time_notes gives note #%d the time %r, exact %s on %s" % (o["i"], o["_f"], float(exact), td.show()), case)
                            break
