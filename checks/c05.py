"""C05 — mutate saves exactly the edited simfile, in the encoding it was read in.
C06 — a failed or cancelled mutate never damages the input file (run_c06, used by c06.py).

(M)   MC_Library: the mutate protocol, one action per step of the code (name check, one decode attempt per
      tried encoding, body steps, render, open/write/close per file) over an abstract filesystem, for every
      content class x name configuration x tried list x edit script x body outcome x fault at the k-th
      filesystem call; all invariants in every state.  The same model with Proto = "truncate_then_stream"
      (the library before its repair) MUST violate the input-intact invariant: that run is the
      non-vacuity proof of the invariant.
(S2C) terminal states of the model are replayed for real (native directory and in-memory PyFilesystem):
      same exception class, same per-file outcome (untouched / holds the entry simfile / holds the exit
      simfile / damaged).
(C2S) generated scenarios run against the recording proxy filesystem (every open/write/close is a call, the
      bytes of all files are snapshotted after each); TLC (Trace_Library) evaluates the protocol clauses on
      every observed state.  For C06 the fault points are ENUMERATED: every k up to the number of calls of
      the fault-free run of the same scenario.
"""
import json
import random

from harness import tlc, core
from . import library_common as lc

INV05 = ["InvDetected", "InvNoDecode", "InvDecodeErrorOnlyIfNone", "InvSaved", "InvOthers", "InvInput", "InvClash", "InvNothingBeforeExit"]
INV06 = ["InvI1", "InvI2", "InvI3", "InvOthers", "InvInput", "InvNothingBeforeExit"]

CLASS_CONTENT = {"A": "ascii", "U": "utf8", "J": "cp932", "K": "cp949", "X": "invalid"}
MODEL_EDIT = {"a": ["set", "TITLE", "Edited"], "j": ["unencodable", "", "猫"], "bad": ["unserializable", "", ""]}
MODEL_NAME = {"": "", "in": "=in", "out": "out.sm", "bak": "song.bak", "other": "other.sm"}     # ".sm" is replaced by the format's extension


def mc_cfg(proto, invs, emit):
    dec = []
    conts = dict(lc.contents(None, "sm"))
    for cl, label in CLASS_CONTENT.items():
        for e in lc.ENCS:
            if lc.decode_text(conts[label], e) is not None:
                dec.append('"%s|%s"' % (cl, e))
    return ("SPECIFICATION Spec\nCONSTANTS\n Proto = \"%s\"\n MaxFault = 9\n DoEmit = %s\n Decodable = {%s}\n%sINVARIANT Emit\n" % (
        proto, "TRUE" if emit else "FALSE", ", ".join(dec), "".join("INVARIANT %s\n" % i for i in invs)))


def scenario_of_model(rec, fs, ext):
    cfg = rec["cfg"]
    contents = dict(lc.contents(None, ext))
    nm = cfg["names"]
    out = MODEL_NAME[nm["out"]] if nm["out"] else ""
    if nm["bak"] == "out":
        bak = "=out" if nm["out"] == "out" else "out.sm"          # a backup file that happens to be called out.sm
        if nm["out"] == "":
            bak = "out.sm"
        elif nm["out"] == "other":
            bak = "out.sm"
    elif nm["bak"] == "other":
        bak = "=out" if nm["out"] == "other" else "other.sm"
    else:
        bak = MODEL_NAME[nm["bak"]]
    oc = cfg["outcome"]
    outcome = {"normal": "normal", "cancel": "cancel", "raise:Exception": "raise:BodyError",
               "raise:KeyboardInterrupt": "raise:KeyboardInterrupt", "raise:SystemExit": "raise:SystemExit"}[oc]
    edits = [MODEL_EDIT[e] for e in rec["script"]]
    uns = ""
    if "bad" in rec["script"]:
        uns = "unserializable"
    return {"fs": fs, "ext": ext, "content": contents[CLASS_CONTENT[cfg["class"]]], "out": out, "bak": bak,
            "tried": list(cfg["tried"]), "edits": edits, "outcome": outcome, "raise_at": cfg["raiseAt"],
            "fault": cfg["fault"], "unsavable": uns}


def real_state(r, name_model, names):
    """classify a file of the finished run like the model's Emit does"""
    ext = names["in"].rsplit(".", 1)[1]
    real = {"in": names["in"], "out": "out." + ext, "bak": "song.bak", "other": "other." + ext}[name_model]
    first, last = r["snaps"][0]["fs"], r["snaps"][-1]["fs"]
    a, b = first.get(real, {"c": 0, "partial": False}), last.get(real, {"c": 0, "partial": False})
    if a == b:
        return "same"
    if b["partial"] or b["c"] == 0:
        return "damaged"
    p = r["parsed"].get(str(b["c"]), 0)
    if p and p == r["entry"] and real == r["names"]["bak"]:
        return "entry"
    if p and p == r["exitobj"]:
        return "exit"
    return "damaged"


def s2c_job(job):
    rec, fs, ext = job
    sc = scenario_of_model(rec, fs, ext)
    if "j" in rec["script"]:
        sc["unsavable"] = sc["unsavable"] or ("unencodable" if rec["cause"] == "unencodable" else "")
    try:
        r = lc.run_scenario(sc, 0)
    except Exception as e:  # noqa
        return ("harness:" + type(e).__name__, repr(e), lc.describe(sc))
    exc = r["exc"]
    exp = rec["exc"]
    ok_exc = (exc == exp) or (exp == "OSError" and exc == "Fault") or (exp == "raise:Exception" and exc == "BodyError") \
        or (exp.startswith("raise:") and exp[6:] == exc) or (exp == "AttributeError" and exc != "" and rec["cause"] == "unserializable")
    if not ok_exc:
        return ("exception", "specification expects %r (cause %s), the library raised %r" % (exp, rec["cause"], exc), lc.describe(sc))
    for nm in ("in", "out", "bak", "other"):
        want = rec["state"][nm]
        got = real_state(r, nm, {"in": "song." + ext})
        if want != got and not (want == "exit" and got == "entry" and r["entry"] == r["exitobj"]) \
                and not (want == "entry" and got == "exit" and r["entry"] == r["exitobj"]):
            return ("file-state:" + nm, "file %s: specification expects %s, observed %s (exception %r, cause %s)" % (
                nm, want, got, exc, rec["cause"]), lc.describe(sc))
    return None


def run_model(ctx, pid, invs, causes, quick):
    res = tlc.run(module="MC_Library", cfg=mc_cfg("render_then_write", invs, True), dirs=lc.DIRS, workers=16, timeout=3000, heap="8g")
    if res.invariant_violated:
        ctx.violation("%s:model:%s" % (pid, res.invariant_violated),
                      "the specified save protocol violates %s:\n%s" % (res.invariant_violated, (res.error_text or "")[:2500]), {"mode": "model"})
        return
    tlc.require_ok(res, "MC_Library")
    ctx.add_tlc("MC_Library(render_then_write)", res)
    if pid == "C06":
        # non-vacuity: the old protocol must be rejected by the same invariant
        old = tlc.run(module="MC_Library", cfg=mc_cfg("truncate_then_stream", ["InvI2"], False), dirs=lc.DIRS, workers=16, timeout=3000, heap="8g")
        if old.invariant_violated != "InvI2":
            raise core.MachineryError("vacuity: the truncate-then-stream protocol is not rejected by InvI2")
        ctx.notes["old_protocol_rejected_by"] = "InvI2 (TLC counterexample found: input truncated, then serialization fails)"
        ctx.tlc_runs.append({"name": "MC_Library(truncate_then_stream) counterexample", "distinct": old.distinct, "generated": old.generated,
                             "wall_s": round(old.wall, 1)})
    # replayed by outcome, not by call index: scenarios with an injected fault are enumerated over the REAL run's own
    # calls in C2S, so that a refactor which changes the number of filesystem calls is not mistaken for a violation
    recs = [r for r in res.printed if r["cause"] in causes and r["cfg"]["fault"] == 0]
    seen = set()
    uniq = []
    for r in recs:
        key = json.dumps(r, sort_keys=True)
        if key not in seen:
            seen.add(key)
            uniq.append(r)
    rng = random.Random(ctx.seed)
    if quick and len(uniq) > 5000:
        uniq = rng.sample(uniq, 5000)
    jobs = [(r, "native" if i % 2 == 0 else "memory", "sm" if (i // 2) % 2 == 0 else "ssc") for i, r in enumerate(uniq)]
    out = core.pmap(s2c_job, jobs, chunk=50)
    for (r, fs, ext), bad in zip(jobs, out):
        ctx.traces += 1
        ctx.evaluations += 1
        ctx.nontrivial_add(("s2c", json.dumps(r, sort_keys=True)))
        if bad:
            ctx.violation("%s:s2c:%s" % (pid, bad[0]), "model scenario replayed on %s/%s: %s; scenario %s" % (fs, ext, bad[1], json.dumps(bad[2])[:600]),
                          {"mode": "scenario", "scenario": dict(bad[2], content_label=CLASS_CONTENT[r["cfg"]["class"]])})
    ctx.notes["s2c_model_terminal_states_replayed"] = len(jobs)
    if uniq:
        ctx.sample({"s2c_model_state": {k: uniq[len(uniq) // 2][k] for k in ("cfg", "script", "exc", "cause", "state")}})


NAME_CFGS = [("", ""), ("out.sm", ""), ("", "song.bak"), ("out.sm", "song.bak"), ("other.sm", "song.bak"), ("", "=in"), ("out.sm", "=out"), ("out.sm", "=in")]


def gen_scenario(rng, i):
    ext = "sm" if i % 2 == 0 else "ssc"
    label, content = rng.choice(lc.contents(rng, ext))
    out, bak = rng.choice(NAME_CFGS)
    tried = list(lc.ENCS)
    r = rng.random()
    explicit = None
    if r < 0.25:
        rng.shuffle(tried)
    elif r < 0.4:
        tried = rng.sample(lc.ENCS, rng.randint(1, 3))
    elif r < 0.5:
        explicit = rng.choice(lc.ENCS)
    elif r < 0.56:
        explicit = "utf-8-sig"                 # a codec that writes a signature once, at the start of the file
    elif r < 0.6:
        tried = ["utf-8-sig"] + rng.sample(lc.ENCS, 2)
    return {"fs": "native" if rng.random() < 0.5 else "memory", "ext": ext, "content": content, "content_label": label,
            "out": out, "bak": bak, "out_exists": rng.random() < 0.3, "tried": tried, "explicit": explicit,
            "edits": lc.gen_edits(rng, rng.choice([0, 0, 1, 2, 4, 8])), "outcome": "normal", "raise_at": 0, "fault": 0}


def run_job(job):
    rid, sc = job
    try:
        return lc.run_scenario(sc, rid)
    except Exception as e:  # noqa
        return {"id": rid, "_harness_error": "%s: %r" % (type(e).__name__, e)}


def detect_job(job):
    return lc.detect_sequence(*job)


def judge(ctx, pid, recs, scs, verdict):
    for r in recs:
        sc = scs[r["id"]]
        ctx.traces += 1
        ctx.evaluations += 1
        cl = verdict[r["id"]]["clause"]
        if sc["edits"] or sc.get("fault") or sc["outcome"] != "normal":
            ctx.nontrivial_add(json.dumps(lc.describe(sc), sort_keys=True))
        if cl:
            ctx.violation("%s:%s" % (pid, cl),
                          "recorded run rejected (%s): exception %r, detected %r, calls %d; scenario %s" % (
                              cl, r["exc"], r["det"], r["_calls"], json.dumps(lc.describe(sc))[:700]),
                          {"mode": "scenario", "scenario": dict(lc.describe(sc), content_hex=sc["content"].hex())})


def run(ctx):
    run_model(ctx, "C05", INV05, {"saved", "decode", "clash"}, ctx.quick)
    rng = random.Random(ctx.seed * 19 + 5)
    n = 500 if ctx.quick else 12000
    scs = {i: gen_scenario(rng, i) for i in range(n)}
    recs = core.pmap(run_job, list(scs.items()), chunk=20)
    for r in recs:
        if "_harness_error" in r:
            raise core.MachineryError("scenario could not be run: %s" % r["_harness_error"])
    verdict = lc.validate(ctx, recs)
    judge(ctx, "C05", recs, scs, verdict)
    ctx.notes["c2s_runs"] = len(recs)
    # whole sessions (System.tla) with named files: serialize into a file, simfile.open(name), simfile.mutate(name, out, backup)
    from . import system_common as sysc
    sessions, sverdict = sysc.run_sessions(ctx, 120 if ctx.quick else 3000, ctx.seed + 5, file_bias=True)
    sysc.judge(ctx, "C05", sessions, sverdict, sysc.MUTATE_OPS, "mutate inside a session")
    sysc.mc_for(ctx, "C05")          # MC_System focus "files": every transition (write / open by name / mutate) replayed on the library
    # the same path re-opened on one filesystem object after its bytes changed: detection follows the current bytes
    drecs = []
    for out in core.pmap(detect_job, [(10 ** 6 + 10 * i, ctx.seed * 37 + i) for i in range(150 if ctx.quick else 4000)], chunk=20):
        drecs += out
    dverdict = lc.validate(ctx, drecs)
    for r in drecs:
        ctx.traces += 1
        ctx.evaluations += 1
        cl = dverdict[r["id"]]["clause"]
        if cl:
            ctx.violation("C05:" + cl, "re-opening a changed file: tried %s, decodable %s, reported %r, exception %r" % (r["tried"], r["dec"], r["got"], r["exc"]),
                          {"mode": "detect", "record": r})
    ctx.notes["c2s_reopen_after_change_steps"] = len(drecs)
    ctx.notes["c2s_idempotence_pairs_claimed"] = sum(1 for r in recs if r["idem"]["ran"] and r["idem"]["sameenc"])
    ctx.sample({"c2s_scenario": lc.describe(scs[3]), "events": [[s["op"], s["name"], s["mode"], s["enc"]] for s in recs[3]["snaps"]]})
    ctx.exhaustive = True
    ctx.rule = ("S2C: terminal states of the bounded protocol model (success, decode failure, name clash); C2S: one evaluation per recorded "
                "mutate run (every observed filesystem state is checked); non-trivial = the block edits the simfile; distinct = distinct scenario")
    ctx.assumptions += [
        "Python's codecs decide what 'decodes'; the loader (C03) and the serializer (C01/C02) decide what a file 'parses to'",
        "values contain no bare carriage return (text-mode newline translation is not the library's)",
        "idempotence is claimed only when the second run detects the same encoding (as the property says)",
    ]


def run_c06(ctx):
    run_model(ctx, "C06", INV06, {"body", "cancel", "unserializable", "unencodable", "open-refused", "write", "close", "open-read"}, ctx.quick)
    rng = random.Random(ctx.seed * 23 + 9)
    base = 40 if ctx.quick else 600
    scs = {}
    rid = 0
    outcomes = ["raise:BodyError", "raise:KeyboardInterrupt", "raise:SystemExit", "cancel", "cancel-subclass"] + \
        [k for k in lc.RAISERS if k not in ("raise:BodyError", "raise:KeyboardInterrupt", "raise:SystemExit")]
    bases = []
    for i in range(base):
        sc = gen_scenario(rng, i)
        if sc["bak"] in ("=in", "=out") and i % 3:
            sc["bak"] = "song.bak"          # (one clash in three is kept: it must be refused before anything is touched)
        if sc["content_label"].startswith("invalid"):
            sc["content"] = lc.base_text(sc["ext"], "t").encode("ascii")
        if not sc["edits"] and i % 4:
            sc["edits"] = lc.gen_edits(rng, 2)      # (every fourth empty script stays empty: a save that changes nothing)
        elif not sc["edits"] and sc["bak"] == "":
            sc["bak"] = "song.bak"
        bases.append(sc)
    for sc in bases:
        # (1) an exception of each class at every position of the edit script
        for pos in range(len(sc["edits"]) + 1):
            for oc in (outcomes if pos in (0, len(sc["edits"])) else [rng.choice(outcomes)]):
                scs[rid] = dict(sc, outcome=oc, raise_at=pos)
                rid += 1
        # (2) unserializable / unencodable
        scs[rid] = dict(sc, edits=sc["edits"] + [["unserializable", "", ""]], unsavable="unserializable")
        rid += 1
    # (3) unencodable character for the encoding that will be detected, and (4) every fault point: need the fault-free run first
    free = core.pmap(run_job, [(k, sc) for k, sc in enumerate(bases)], chunk=10)
    for sc, r in zip(bases, free):
        if "_harness_error" in r:
            raise core.MachineryError("scenario could not be run: %s" % r["_harness_error"])
        if r["det"] in lc.UNENCODABLE:
            place = ["value", "key", "chartfield", "chartextra", "notes"][rid % 5]
            scs[rid] = dict(sc, edits=sc["edits"] + [["unencodable", place, lc.UNENCODABLE[r["det"]]]], unsavable="unencodable")
            rid += 1
        for k in range(1, r["_calls"] + 1):
            scs[rid] = dict(sc, fault=k)
            rid += 1
    recs = core.pmap(run_job, list(scs.items()), chunk=20)
    for r in recs:
        if "_harness_error" in r:
            raise core.MachineryError("scenario could not be run: %s" % r["_harness_error"])
    nfault = sum(1 for r in recs if r["_fault_fired"])
    verdict = lc.validate(ctx, recs)
    judge(ctx, "C06", recs, scs, verdict)
    from . import system_common as sysc
    sessions, sverdict = sysc.run_sessions(ctx, 120 if ctx.quick else 3000, ctx.seed + 6, file_bias=True)
    sysc.judge(ctx, "C06", sessions, sverdict, sysc.FAILED_MUTATE_OPS, "a cancelled / failing mutate inside a session")
    sysc.mc_for(ctx, "C06")
    # lenient error handlers handed through mutate(): whenever the save then fails, the input must be intact
    eres = core.pmap(lc.run_errors_scenario, lc.errors_jobs(), chunk=8)
    for r in eres:
        ctx.traces += 1
        ctx.evaluations += 1
        if r["exc"] and not r["inputsame"]:
            ctx.violation("C06:input-damaged-although-save-failed:errors=" + r["handler"],
                          "mutate(errors=%r) on a %s %s file (%s filesystem, backup %s) raised %s and the input file no longer holds its original bytes" % (
                              r["handler"], r["enc"], r["ext"], r["fs"], r["bak"], r["exc"]), {"mode": "errors", "job": r})
        elif r["exc"] and not r["baksame"]:
            ctx.violation("C06:backup-incomplete-although-save-failed:errors=" + r["handler"],
                          "mutate(errors=%r) on a %s %s file (%s filesystem) raised %s and the backup written does not hold the original" % (
                              r["handler"], r["enc"], r["ext"], r["fs"], r["exc"]), {"mode": "errors", "job": r})
    ctx.notes["runs_with_a_lenient_error_handler"] = len(eres)
    ctx.notes["of_which_the_save_failed"] = sum(1 for r in eres if r["exc"])
    ctx.notes["c2s_runs"] = len(recs)
    ctx.notes["fault_points_enumerated"] = sum(1 for sc in scs.values() if sc.get("fault"))
    ctx.notes["fault_points_that_fired"] = nfault
    ctx.notes["fault_enumeration_complete"] = "every k in 1..(calls of the fault-free run) for each of %d base scenarios" % len(bases)
    k = next(i for i, sc in scs.items() if sc.get("fault"))
    ctx.sample({"c2s_fault_scenario": lc.describe(scs[k]), "events": [[s["op"], s["name"], s["mode"], s["ok"]] for s in recs[k]["snaps"]],
                "exception": recs[k]["exc"]})
    ctx.exhaustive = True
    ctx.rule = ("S2C: terminal failure states of the bounded protocol model; C2S: per base scenario an exception of each class at every edit "
                "position, an unserializable value, an unencodable character for the detected encoding, and a fault at EVERY filesystem call "
                "of the fault-free run; one evaluation per run; distinct = distinct scenario")
    ctx.assumptions += [
        "a fault is an OSError raised by the k-th open/write/close before it takes effect; writes are flushed so snapshots show what reached the file",
        "whether a partially written output can be avoided when a write itself fails is not claimed (only: others untouched, backup complete before the output is opened, input intact when saving cannot even start)",
    ]


def replay(rec):
    case = rec["case"]
    print(rec.get("what"))
    sc = dict(case.get("scenario", {}))
    if "content_hex" in sc:
        sc["content"] = bytes.fromhex(sc.pop("content_hex"))
    elif "content_label" in sc:
        sc["content"] = dict(lc.contents(None, sc["ext"]))[sc["content_label"]]
    else:
        return 1
    r = lc.run_scenario(sc, 0)
    print("exception:", r["exc"], "| detected:", r["det"])
    for s in r["snaps"]:
        print("  ", s["op"], s["name"], s["mode"], s["enc"], "ok" if s["ok"] else "FAILED", s["fs"])
    return 1
