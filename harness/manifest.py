"""Generates /verif/MANIFEST.json from the table below (python -m harness.manifest)."""
import json
import os

from .core import VERIF

BASELINE = ("cd /repo && /venv/bin/python -m pytest -ra -q -p no:cacheprovider --timeout=900 "
            "--continue-on-collection-errors")

TECH = ("explicit TLA+ specification checked with TLC (bounded model), bound to the code by "
        "spec->code replay of TLC-emitted transitions and code->spec TLC trace validation")

# pid -> (engine, design section, level text, level note)
CLAIMED = {
    "C18": ("object", "6/C18",
            "TLC explores the whole Object machine (every reachable mapping x every operation) for 12 "
            "kind x property configurations with all clauses as invariants; every distinct transition is "
            "replayed on the real object; random long histories over all known properties are validated "
            "step by step against the same specification by TLC.",
            "bounded: 3 keys, 3 values per configuration; histories sampled beyond that. msdparser reads str(obj) back."),
}

PENDING = {}

ENGINES = [
    ("object", "spec/object", ["C18"], "Object.tla + MC_Object (TLC BFS) + Trace_Object (TLC trace validation)"),
]


def build():
    with open(os.path.join(VERIF, "properties.jsonl")) as f:
        pids = [json.loads(l)["id"] for l in f if l.strip()]
    checks = []
    for pid in pids:
        if pid not in CLAIMED:
            continue
        eng, ref, text, note = CLAIMED[pid]
        checks.append({
            "property_id": pid,
            "quick_cmd": "./check %s --tier quick" % pid,
            "thorough_cmd": "./check %s --tier thorough" % pid,
            "evidence_file": "/verif/evidence/%s.json" % pid,
            "replay_cmd_template": "./check %s --replay {path}" % pid,
            "engine": eng,
            "level_claimed": {"category": "model_checking", "text": text, "design_ref": "DESIGN.md section " + ref},
            "level_note": note,
            "technique": TECH,
        })
    na = [{"property_id": p, "reason": PENDING.get(p, "check not built yet in this round; see DESIGN.md section 9 build order")}
          for p in pids if p not in CLAIMED]
    m = {
        "version": 1,
        "setup_cmd": "make -C /verif setup",
        "hooks": {
            "guard": "SIMFILE_VERIF",
            "enable": "no hooks are needed: the library is sequential and its public API exposes the abstract state; "
                      "checks import /repo's working tree directly (pure Python, nothing to build)",
            "baseline_off_cmd": BASELINE,
            "source_commits": [],
            "add_only": True,
        },
        "engines": [{"name": n, "path": p, "serves_properties": s, "kind_free_text": k} for n, p, s, k in ENGINES],
        "checks": checks,
        "notes": "Every check: exit 0 held / 1 VIOLATION / 2 machinery failure. Known findings: known_findings.json.",
        "not_applicable": na,
    }
    with open(os.path.join(VERIF, "MANIFEST.json"), "w") as f:
        json.dump(m, f, indent=1)
    return m


if __name__ == "__main__":
    m = build()
    print("MANIFEST.json: %d checks, %d not_applicable" % (len(m["checks"]), len(m["not_applicable"])))
