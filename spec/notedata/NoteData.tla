------------------------------ MODULE NoteData ------------------------------
(* Note data: the text of a chart's NOTES value, the stream of notes it      *)
(* stands for, and the two directions between them.                          *)
(*   note == [p |-> player, n |-> beat numerator, d |-> beat denominator,     *)
(*            c |-> column, t |-> note type (code point), k |-> keysound index or -1] *)
(* beats are in lowest terms with d > 0.                                      *)
EXTENDS Text, Rat, TLC

ZERO == 48                     \* "0"
NoteChars == {49, 50, 51, 52, 65, 70, 75, 76, 77}   \* 1 2 3 4 A F K L M
IsDigit(c) == c >= 48 /\ c <= 57

-----------------------------------------------------------------------------
(* Decoding, as documented: players separated by '&', measures by ',', one   *)
(* row per line, blanks around rows / measures ignored, "[n]" attaches the    *)
(* keysound index n to the cell before it and takes no column.                *)
RECURSIVE DigitsVal(_, _, _)
DigitsVal(s, i, acc) == IF i > Len(s) \/ ~IsDigit(s[i]) THEN <<acc, i>>
                        ELSE DigitsVal(s, i + 1, acc * 10 + (s[i] - 48))

(* cells of one (stripped) row: sequence of [ch, k] *)
RECURSIVE CellsFrom(_, _, _)
CellsFrom(row, i, acc) ==
  IF i > Len(row) THEN acc
  ELSE IF row[i] = LBR THEN
         LET dv == DigitsVal(row, i + 1, 0) IN          \* dv[2] is the index of ']'
         CellsFrom(row, dv[2] + 1, [acc EXCEPT ![Len(acc)].k = dv[1]])
  ELSE CellsFrom(row, i + 1, Append(acc, [ch |-> row[i], k |-> -1]))
Cells(row) == CellsFrom(row, 1, <<>>)

RowsOf(measure) == LET ls == SplitLines(Strip(measure)) IN [i \in DOMAIN ls |-> Strip(ls[i])]

BeatOf(m, rows, r) == Norm(<<4 * (m * rows + r), rows>>)     \* 0-based measure m and row r

NotesOfRow(p, m, rows, r, row) ==
  LET cs == Cells(row)
      nz == SelectSeq([c \in DOMAIN cs |-> [c |-> c - 1, cell |-> cs[c]]], LAMBDA x : x.cell.ch # ZERO)
      b  == BeatOf(m, rows, r)
  IN [i \in DOMAIN nz |-> [p |-> p, n |-> b[1], d |-> b[2], c |-> nz[i].c, t |-> nz[i].cell.ch, k |-> nz[i].cell.k]]

NotesOfMeasure(p, m, measure) ==
  LET rows == RowsOf(measure) IN
  Concat([r \in DOMAIN rows |-> NotesOfRow(p, m, Len(rows), r - 1, rows[r])])

NotesOfPlayer(p, text) ==
  LET ms == SplitOn(text, COMMA) IN Concat([m \in DOMAIN ms |-> NotesOfMeasure(p, m - 1, ms[m])])

Decode(text) ==
  LET ps == SplitOn(text, AMP) IN Concat([p \in DOMAIN ps |-> NotesOfPlayer(p - 1, ps[p])])

(* the column count: width of the first row, keysound brackets not counted *)
Columns(text) ==
  LET firstPlayer == SplitOn(text, AMP)[1]
      firstMeasure == SplitOn(firstPlayer, COMMA)[1]
      rows == RowsOf(firstMeasure)
  IN IF rows = <<>> THEN 0 ELSE Len(Cells(rows[1]))

(* rows per measure, per player: <<  <<rows of measure 1, ...>>, ... >> *)
Shape(text) ==
  LET ps == SplitOn(text, AMP) IN
  [p \in DOMAIN ps |-> LET ms == SplitOn(ps[p], COMMA) IN [m \in DOMAIN ms |-> Len(RowsOf(ms[m]))]]

(* every row of the text has exactly `cols` cells *)
AllRowsWide(text, cols) ==
  LET ps == SplitOn(text, AMP) IN
  \A p \in DOMAIN ps : LET ms == SplitOn(ps[p], COMMA) IN
    \A m \in DOMAIN ms : LET rows == RowsOf(ms[m]) IN \A r \in DOMAIN rows : Len(Cells(rows[r])) = cols

-----------------------------------------------------------------------------
(* Position order: (player, beat, column).                                   *)
BeatLess(a, b) == a.n * b.d < b.n * a.d
BeatEq(a, b) == a.n = b.n /\ a.d = b.d
PosLess(a, b) == \/ a.p < b.p
                 \/ a.p = b.p /\ BeatLess(a, b)
                 \/ a.p = b.p /\ BeatEq(a, b) /\ a.c < b.c
PosEq(a, b) == a.p = b.p /\ BeatEq(a, b) /\ a.c = b.c
PosLeq(a, b) == PosLess(a, b) \/ PosEq(a, b)
StrictlyIncreasing(ns) == \A i \in 1..(Len(ns) - 1) : PosLess(ns[i], ns[i + 1])
WellFormedNote(x, cols) == x.d > 0 /\ x.n >= 0 /\ GCD(x.n, x.d) = 1 /\ x.c >= 0 /\ x.c < cols /\ x.p >= 0

-----------------------------------------------------------------------------
(* Encoding, declaratively: players 0..max all present; per player measures  *)
(* 0..last all present; a measure has 4*q rows, q the least common multiple   *)
(* of its notes' beat denominators (4 rows when it has no notes); a note sits *)
(* at row (beat mod 4)*q.                                                      *)
MeasureOf(x) == x.n \div (4 * x.d)                 \* floor(beat / 4)
RowIn(x, q) == ((x.n - 4 * x.d * MeasureOf(x)) * q) \div x.d    \* (beat mod 4) * q, an integer
RECURSIVE LcmDen(_, _)
LcmDen(ns, i) == IF i > Len(ns) THEN 1 ELSE LCM(ns[i].d, LcmDen(ns, i + 1))

MaxPlayer(ns) == IF ns = <<>> THEN 0 ELSE ns[Len(ns)].p       \* sorted
PlayerNotes(ns, p) == SelectSeq(ns, LAMBDA x : x.p = p)
LastMeasure(pns) == IF pns = <<>> THEN 0 ELSE MeasureOf(pns[Len(pns)])
MeasureNotes(pns, m) == SelectSeq(pns, LAMBDA x : MeasureOf(x) = m)

ExpectedShape(ns) ==
  [p \in 1..(MaxPlayer(ns) + 1) |->
     LET pns == PlayerNotes(ns, p - 1) IN
     [m \in 1..(LastMeasure(pns) + 1) |-> 4 * LcmDen(MeasureNotes(pns, m - 1), 1)]]

RECURSIVE NatText(_)
NatText(k) == IF k < 10 THEN <<48 + k>> ELSE NatText(k \div 10) \o <<48 + (k % 10)>>
CellText(x) == IF x.k < 0 THEN <<x.t>> ELSE <<x.t, LBR>> \o NatText(x.k) \o <<RBR>>

RowText(rowNotes, cols) ==
  Concat([c \in 1..cols |->
            IF \E i \in DOMAIN rowNotes : rowNotes[i].c = c - 1
            THEN CellText(rowNotes[CHOOSE i \in DOMAIN rowNotes : rowNotes[i].c = c - 1])
            ELSE <<ZERO>>]) \o <<LF>>

MeasureText(mns, cols) ==
  LET q == LcmDen(mns, 1) IN
  Concat([r \in 1..(4 * q) |-> RowText(SelectSeq(mns, LAMBDA x : RowIn(x, q) = r - 1), cols)])

PlayerText(pns, cols) ==
  LET last == LastMeasure(pns) IN
  JoinWith([m \in 1..(last + 1) |-> MeasureText(MeasureNotes(pns, m - 1), cols)], <<COMMA, LF>>)

(* the canonical text (the layout the library writes today) *)
Encode(ns, cols) ==
  JoinWith([p \in 1..(MaxPlayer(ns) + 1) |-> PlayerText(PlayerNotes(ns, p - 1), cols)], <<AMP, LF>>)
=============================================================================
