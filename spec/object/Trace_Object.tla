---------------------------- MODULE Trace_Object ----------------------------
(* Validates executions recorded from the real objects (one ndjson line per *)
(* history) against Object!Apply, evaluating the property's clauses on the  *)
(* logged states at every step.  Verdicts are total: a step that does not   *)
(* match is reported (REJECT) and validation moves on to the next history.  *)
EXTENDS Object, Json, IOUtils
VARIABLES tid, l, items
vars == <<tid, l, items>>

Traces == ndJsonDeserialize(IOEnv.TRACE_FILE)
N == Len(Traces)
Cur == Traces[tid]

Equal(kind, a, b) ==
  IF kind = "smchart" THEN \A i \in 1..6 : Get(a, SMChartFields[i]) = Get(b, SMChartFields[i])
  ELSE a = b

(* e: logged step [o, res, items, ser, padded, cmp]; r: what the specification says                    *)
(* (padded: an SM chart field with blanks at its ends - outside the serializer's domain, see C01)  *)
Clause(kind, before, e, r) ==
  IF r.res.st # e.res.st THEN "result-status"
  ELSE IF r.res.val # e.res.val THEN "result-value"
  ELSE IF r.items # e.items THEN "state-after"
  ELSE IF ~UniqueKeys(e.items) THEN "unique-keys"
  ELSE IF ~FrameOK(before, e.o, e.items) THEN "frame"
  ELSE IF ~AttrOK(before, e.o, e.res, e.items) THEN "attribute-view"
  ELSE IF kind = "smchart" /\ ~SMChartOK(e.items) THEN "smchart-fields"
  ELSE IF Serializable(kind, e.items) /\ ~e.padded /\ e.ser # <<SerView(kind, e.items)>> THEN "serialization"
  ELSE IF \E c \in {e.cmp[i] : i \in DOMAIN e.cmp} :
            c.eq # Equal(kind, e.items, c.other) THEN "equality"
  ELSE ""

Verdict(t, n, st, c) == PrintT(ToJson([t |-> t, id |-> Traces[n].id, l |-> st, clause |-> c]))

Goto(n) == /\ tid' = n
           /\ l' = 1
           /\ items' = IF n <= N THEN Traces[n].init ELSE <<>>

Init == tid = 1 /\ l = 1 /\ items = IF N >= 1 THEN Traces[1].init ELSE <<>>

Finish == /\ tid <= N /\ l > Len(Cur.steps)
          /\ Verdict("ACCEPT", tid, l - 1, "")
          /\ Goto(tid + 1)

Step == /\ tid <= N /\ l <= Len(Cur.steps)
        /\ LET e == Cur.steps[l]
               r == Apply(Cur.kind, items, e.o)
               c == Clause(Cur.kind, items, e, r)
           IN IF c = "" THEN /\ l' = l + 1 /\ items' = r.items /\ UNCHANGED tid
              ELSE /\ Verdict("REJECT", tid, l, c) /\ Goto(tid + 1)

Next == Step \/ Finish
Spec == Init /\ [][Next]_vars
=============================================================================
