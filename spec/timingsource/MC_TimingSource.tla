--------------------------- MODULE MC_TimingSource --------------------------
(* Mode "full": the whole space kind x version x chart x 3^11 property states;   *)
(* the selection depends on the properties only through "any non-empty"          *)
(* (symmetry), and an edit of one property that does not change that changes no   *)
(* answer.  Mode "quot": property patterns x OFFSET / DISPLAYBPM states on either   *)
(* side x BPMS sizes x ignore: all-or-nothing (no field of the other source), and    *)
(* every configuration is emitted for replay.                                         *)
EXTENDS TimingSource, Json, TLC
CONSTANTS Mode, Versions, Patterns, OffStates, DbS, DbC, DoEmit, FullKinds, FullCharts
VARIABLE c
St == {"absent", "empty", "nonempty"}
Pattern(k) == CASE k = 1 -> [p \in 1..NProps |-> "absent"]
                [] k = 2 -> [p \in 1..NProps |-> "empty"]
                [] k = 3 -> [p \in 1..NProps |-> IF p = 1 THEN "nonempty" ELSE "absent"]
                [] k = 4 -> [p \in 1..NProps |-> IF p = 11 THEN "nonempty" ELSE "empty"]
                [] k = 5 -> [p \in 1..NProps |-> IF p = 10 THEN "nonempty" ELSE IF p < 4 THEN "empty" ELSE "absent"]
                [] k = 6 -> [p \in 1..NProps |-> IF p \in {2, 7} THEN "nonempty" ELSE "absent"]
                [] k = 7 -> [p \in 1..NProps |-> "nonempty"]
                [] k = 8 -> [p \in 1..NProps |-> IF p = 4 THEN "nonempty" ELSE "absent"]
                [] k = 9 -> [p \in 1..NProps |-> IF p = 1 THEN "empty" ELSE IF p = 2 THEN "nonempty" ELSE "absent"]
Base == [off |-> [x \in {"s", "c"} |-> "absent"], db |-> [x \in {"s", "c"} |-> "absent"], nb |-> [x \in {"s", "c"} |-> 1], ignore |-> FALSE]
Init ==
  IF Mode = "full"
  THEN \E k \in FullKinds, v \in Versions, ch \in FullCharts, tp \in [1..NProps -> St] :
         c = [kind |-> k, ver |-> v, chart |-> ch, tp |-> tp] @@ Base
  ELSE \E k \in {"sm", "ssc"}, v \in Versions, ch \in {"none", "sm", "ssc"}, pt \in Patterns,
          os \in OffStates, oc \in OffStates, ds \in DbS, dc \in DbC, ns \in {1, 2}, nc \in {1, 3}, ig \in BOOLEAN :
         c = [kind |-> k, ver |-> v, chart |-> ch, tp |-> Pattern(pt), off |-> ("s" :> os @@ "c" :> oc),
              db |-> ("s" :> ds @@ "c" :> dc), nb |-> ("s" :> ns @@ "c" :> nc), ignore |-> ig]
Next == FALSE /\ UNCHANGED c
Spec == Init /\ [][Next]_c

InvSymmetry == UsesChart(c) <=> (c.kind = "ssc" /\ c.chart = "ssc" /\ c.ver >= 70 /\ AnyNonEmpty(c.tp))
(* an edit of one property that leaves "any non-empty" unchanged changes nothing that does not read that property *)
InvEditStable == Mode = "full" =>
  \A p \in 1..NProps, s \in St :
    LET c2 == [c EXCEPT !.tp[p] = s] IN
    (AnyNonEmpty(c2.tp) = AnyNonEmpty(c.tp)) => Source(c2) = Source(c)
(* all-or-nothing: no field of the result comes from the source that was not chosen *)
InvNeverMixed ==
  LET td == TimingDataOf(c)  other == IF Source(c) = "s" THEN "c" ELSE "s" IN
  /\ \A n \in DOMAIN td : td[n][1] # other
  /\ DisplayOf(c)[1] # "random" => DisplayOf(c)[2] = Source(c)
InvOffsetDefault == c.off[Source(c)] # "value" => TimingDataOf(c)["offset"] = <<"zero">>

Emit == DoEmit => PrintT(ToJson([cfg |-> c, src |-> Source(c), td |-> TimingDataOf(c), disp |-> DisplayOf(c)]))
=============================================================================
