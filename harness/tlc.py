"""Runner for TLC: copies the needed modules to a scratch directory (never inside
/verif or /repo), writes the .cfg, runs TLC under a timeout, parses its output and
removes the scratch directory again."""
import json
import os
import re
import shutil
import subprocess
import tempfile
import time
from concurrent.futures import ThreadPoolExecutor

VERIF = os.path.dirname(os.path.dirname(os.path.abspath(__file__)))
SPEC = os.path.join(VERIF, "spec")
JAR_CP = "/opt/veriftools/tla/tla2tools.jar:/opt/veriftools/tla/CommunityModules-deps.jar"


class TLCError(Exception):
    """The machinery failed (exit 2), as opposed to a property violation."""


class TLCResult:
    def __init__(self):
        self.stdout = ""
        self.generated = 0
        self.distinct = 0
        self.depth = 0
        self.printed = []      # values emitted with PrintT(ToJson(..))
        self.coverage = {}     # action name -> (distinct, total)
        self.rc = None
        self.wall = 0.0
        self.invariant_violated = None
        self.error_text = None

    @property
    def ok(self):
        return self.rc == 0 and self.error_text is None


_RE_STATES = re.compile(r"^(\d+) states generated, (\d+) distinct states found")
_RE_DEPTH = re.compile(r"^The depth of the complete state graph search is (\d+)")
_RE_COV = re.compile(r"^<(\w+) line \d+, col \d+ to line \d+, col \d+ of module (\w+)(?: \([\d ]+\))?>: (\d+):(\d+)")
_RE_INV = re.compile(r"^Error: Invariant (\w+) is violated")
_RE_APROP = re.compile(r"^Error: Action property (\w+) is violated")


def parse_output(res, text):
    res.stdout = text
    err_lines = []
    in_err = False
    for line in text.splitlines():
        if line.startswith('"') and line.endswith('"') and len(line) >= 2:
            try:
                inner = json.loads(line)
                if inner[:1] in "{[":
                    res.printed.append(json.loads(inner))
                    continue
            except Exception:
                pass
        m = _RE_STATES.match(line)
        if m:
            res.generated = int(m.group(1))
            res.distinct = int(m.group(2))
            continue
        m = _RE_DEPTH.match(line)
        if m:
            res.depth = int(m.group(1))
            continue
        m = _RE_COV.match(line)
        if m:
            name = m.group(1)
            d, t = int(m.group(3)), int(m.group(4))
            od, ot = res.coverage.get(name, (0, 0))
            res.coverage[name] = (od + d, ot + t)
            continue
        m = _RE_INV.match(line) or _RE_APROP.match(line)
        if m:
            res.invariant_violated = m.group(1)
        if line.startswith("Error:"):
            in_err = True
        if in_err and len(err_lines) < 60:
            err_lines.append(line)
    if err_lines:
        res.error_text = "\n".join(err_lines)
    return res


def _stage(modules_dirs, scratch):
    for d in modules_dirs:
        for fn in os.listdir(d):
            if fn.endswith(".tla"):
                shutil.copy(os.path.join(d, fn), os.path.join(scratch, fn))


def run(module, cfg, dirs, *, workers=1, env=None, timeout=900, coverage=False,
        simulate=None, depth=None, seed=None, xss="256m", heap="3g", extra=(),
        files=None, deadlock=False):
    """Run TLC on `module` (root module name) found in `dirs` (spec sub-directories;
    'common' is always added) with configuration text `cfg`.

    files: {name: text} extra files written next to the spec (trace files ...).
    Returns TLCResult; raises TLCError on time-out or when TLC cannot start."""
    scratch = tempfile.mkdtemp(prefix="vtlc_")
    res = TLCResult()
    try:
        ds = [os.path.join(SPEC, "common")] + [os.path.join(SPEC, d) for d in dirs]
        _stage(ds, scratch)
        with open(os.path.join(scratch, module + ".cfg"), "w") as f:
            f.write(cfg)
        for name, text in (files or {}).items():
            with open(os.path.join(scratch, name), "w") as f:
                f.write(text)
        cmd = ["java", "-XX:+UseParallelGC", "-Xss" + xss, "-Xmx" + heap,
               "-Djava.io.tmpdir=" + scratch,
               "-cp", JAR_CP, "tlc2.TLC", "-workers", str(workers),
               "-metadir", os.path.join(scratch, "meta"), "-noGenerateSpecTE"]
        if not deadlock:
            cmd += ["-deadlock"]
        if coverage:
            cmd += ["-coverage", "1"]
        if simulate is not None:
            cmd += ["-simulate", "num=%d" % simulate]
        if depth is not None:
            cmd += ["-depth", str(depth)]
        if seed is not None:
            cmd += ["-seed", str(seed)]
        cmd += list(extra) + [module]
        e = dict(os.environ)
        e.pop("JAVA_TOOL_OPTIONS", None)
        e.update(env or {})
        t0 = time.time()
        try:
            p = subprocess.run(cmd, cwd=scratch, env=e, stdout=subprocess.PIPE,
                               stderr=subprocess.STDOUT, timeout=timeout, text=True,
                               errors="replace")
        except subprocess.TimeoutExpired as ex:
            raise TLCError("TLC timed out after %ss on %s" % (timeout, module)) from ex
        res.wall = time.time() - t0
        res.rc = p.returncode
        parse_output(res, p.stdout)
        return res
    finally:
        shutil.rmtree(scratch, ignore_errors=True)


def run_many(jobs, parallel=16):
    """jobs: list of kwargs dicts for run(); executed in parallel processes."""
    with ThreadPoolExecutor(max_workers=parallel) as ex:
        futs = [ex.submit(lambda kw=kw: run(**kw)) for kw in jobs]
        return [f.result() for f in futs]


def require_ok(res, what):
    """A TLC run that is part of the machinery must finish cleanly."""
    if res.rc != 0 or res.error_text:
        tail = "\n".join(res.stdout.splitlines()[-40:])
        raise TLCError("%s: TLC rc=%s\n%s" % (what, res.rc, res.error_text or tail))


def sany(path):
    p = subprocess.run(["java", "-cp", JAR_CP, "tla2sany.SANY", path], cwd=os.path.dirname(path),
                       stdout=subprocess.PIPE, stderr=subprocess.STDOUT, text=True)
    return p.returncode == 0 and "Semantic errors" not in p.stdout and "Parse Error" not in p.stdout, p.stdout
