"""User sessions (load / create, edit through keys and attributes, chart edits, save, re-open, convert)
recorded from the real library and validated as whole behaviours against spec/system/System.tla by the
trace specification Trace_System.tla (state variables obj / disk, one action per recorded event)."""
import json
import random

from harness import core, tlc
from harness.core import cps, uncps
from . import codec_common as cc

DIRS = ["system", "codec", "notedata", "beat", "convert", "grouping", "timing"]
EDIT_OPS = {"getattr", "setattr", "delattr", "setkey", "delkey", "appendchart", "removechart", "swapcharts",
            "setchartitem", "delchartitem", "setchartfield", "setchartextra", "create"}
SAVE_OPS = {"save", "reopen", "load", "writefile", "openfile"}
MUTATE_OPS = {"mutatefile"}
FAILED_MUTATE_OPS = {"mutatefile-failed"}
READ_OPS = {"readnotes", "readtiming"}
CONVERT_OPS = {"tossc"}
TOSM_OPS = {"tosm"}
ATTRS = {"sm": ["title", "artist", "stops", "bgchanges"], "ssc": ["title", "artist", "stops", "bgchanges", "version"]}
SMF = ["stepstype", "description", "difficulty", "meter", "radarvalues", "notes"]
SAFE = "abcXYZ019 _-.,=()é猫"


def val(rng, n=6):
    s = "".join(rng.choice(SAFE) for _ in range(rng.randint(0, n)))
    if rng.random() < 0.25:
        s += rng.choice([":", ";", "\\", "//", "\n", "a:b", " x "])
    return s


def after(sf):
    p = cc.proj(sf)
    return {"fmt": cc.fmt_of(sf), "items": p["items"], "charts": p["charts"]}


def chart_proj(c, fmt):
    if fmt == "sm":
        return {"fields": [cc._v(c.get(f)) for f in cc.SMF], "extra": [cc._v(x) for x in (c.extradata or [])]}
    return cc.proj_items(c)


SMOOTH = {
    "BPMS": ["0=160", "0=160,4=80", "0.000=80,\n2.000=320,\n6=40", "0=640,1=64,3.5=128", "0=40", "0=20,2=10"],
    "STOPS": ["", "1=0.5", "2=0.25,5=1", "0=0.125", "4.5=2,6=0.5"],
    "DELAYS": ["", "3=0.5", "2=0.25", "1=1,5=0.125"],
    "WARPS": ["", "4=2", "1=0.5,1.25=1", "2=1,3=1", "0=1", "2=0.021"],
    "OFFSET": ["", "0", "0.5", "-0.25", "0.125", "1"],
}
TIMED_OPTS = {"fake": "TAP_TO_FAKE", "drop": "DROP_NOTE", "keep": "KEEP_NOTE"}


def tick_notes(rng):
    """note data on rows whose beats are multiples of 1/26880 beat (4 ... 192 rows per measure, also 20 / 28)"""
    cols = rng.choice([1, 2, 4, 4, 6])
    ms = []
    for _ in range(rng.randint(1, 2)):
        rows = rng.choice([4, 4, 8, 12, 16, 24, 48, 20, 28] if cols <= 2 else [4, 4, 8, 12, 16, 20])
        ms.append("\n".join("".join(rng.choice("00000000000001124M3LF") for _ in range(cols)) for _ in range(rows)))
    return "\n,\n".join(ms) + "\n"


def timing_step(rng, sf, fmt, log):
    """one step of a timing-minded user: timing properties on the simfile / a chart, the SSC version, timed notes"""
    from simfile.notes import NoteData
    from simfile.notes.timed import time_notes, UnhittableNotes
    from simfile.timing import TimingData
    from . import notedata_common as nc
    q = rng.random()
    if q < 0.25:
        name = rng.choice(["BPMS", "BPMS", "STOPS", "DELAYS", "WARPS", "OFFSET"])
        v = rng.choice(SMOOTH[name])
        if name == "STOPS" and rng.random() < 0.5:
            sf.stops = v                                  # attribute: FREEZES on an SM simfile that spells it so
            log("setattr", sf, name=cps("STOPS"), v=cps(v))
        else:
            sf[name] = v
            log("setkey", sf, k=cps(name), v=cps(v))
    elif q < 0.33 and fmt == "sm":
        v = rng.choice(SMOOTH["STOPS"])
        sf["FREEZES"] = v
        log("setkey", sf, k=cps("FREEZES"), v=cps(v))
    elif q < 0.40 and fmt == "ssc":
        v = rng.choice(["0.69", "0.7", "0.70", "0.83", "0.5", "", "1", "0.07"])
        if rng.random() < 0.5:
            sf.version = v
            log("setattr", sf, name=cps("VERSION"), v=cps(v))
        else:
            sf["VERSION"] = v
            log("setkey", sf, k=cps("VERSION"), v=cps(v))
    elif q < 0.60 and fmt == "ssc" and sf.charts:
        j = rng.randrange(len(sf.charts))
        name = rng.choice(["BPMS", "STOPS", "DELAYS", "WARPS", "OFFSET", "LABELS", "COMBOS", "SCROLLS", "ATTACKS", "DISPLAYBPM", "CREDIT"])
        v = rng.choice(SMOOTH[name]) if name in SMOOTH else rng.choice(["", "0=1", "0.000=x"])      # (ATTACKS, DISPLAYBPM, CREDIT: not among the eleven)
        sf.charts[j][name] = v
        log("setchartitem", sf, j=j + 1, name=cps(name), v=cps(v))
    elif q < 0.75 and sf.charts:
        j = rng.randrange(len(sf.charts))
        t = tick_notes(rng)
        c = sf.charts[j]
        if fmt == "sm":
            c.notes = t.strip()
            log("setchartfield", sf, j=j + 1, f=6, v=cps(t.strip()))
        else:
            c.notes = t
            log("setchartitem", sf, j=j + 1, name=cps("NOTES"), v=cps(t))
    elif sf.charts:
        j = rng.randrange(len(sf.charts))
        c = sf.charts[j]
        txt = c.notes
        if txt is None or not isinstance(txt, str) or any(ch not in "0123456789AFKLM[],&\r\n \t" for ch in txt) or not txt.strip():
            return
        opt = rng.choice(["fake", "fake", "drop", "keep"])
        try:
            td = TimingData(sf, c)
            if opt == "fake" and rng.random() < 0.5:
                out = list(time_notes(NoteData(c), td))
            else:
                out = list(time_notes(NoteData(c), td, getattr(UnhittableNotes, TIMED_OPTS[opt])))
        except Exception:  # noqa  (timing strings that do not parse, no BPM at all: not part of a session)
            return
        res = []
        for tn in out:
            d = nc.proj_note(tn.note)
            x = float(tn.time) * 286720
            if abs(x) > 2 ** 30:
                return
            d["tm"] = int(round(x))
            res.append(d)
        log("timenotes", sf, j=j + 1, opt=opt, res=res)


FILE_NAMES = ["song.sm", "song.ssc", "Song.SSC", "x.SM", "a.sm.bak", "notes.txt", "b.ssc.old", "ssc", "noext", ".ssc", ".sm", "..SM", "a.b.Ssc"]


class _Files:
    """the session's own directory on the native filesystem (removed at the end of the session)"""

    def __init__(self):
        import tempfile
        self.dir = tempfile.mkdtemp(prefix="vsess_")

    def path(self, name):
        import os
        return os.path.join(self.dir, name)

    def snapshot(self):
        """every file with its text, and every directory (as 'name/') - nothing may appear that the call does not account for"""
        import os
        out = []
        for root, dirs, names in os.walk(self.dir):
            rel = os.path.relpath(root, self.dir)
            pre = "" if rel == "." else rel.replace(os.sep, "/") + "/"
            for d in sorted(dirs):
                out.append({"n": cps(pre + d + "/"), "t": []})
            for n in sorted(names):
                with open(os.path.join(root, n), "rb") as f:
                    out.append({"n": cps(pre + n), "t": cps(f.read().decode("utf-8"))})
        return sorted(out, key=lambda e: e["n"])

    def close(self):
        import shutil
        shutil.rmtree(self.dir, ignore_errors=True)


def file_step(rng, sf, files, log, evs):
    """one step of a user working with named files: serialize into a file, simfile.open(name), simfile.mutate(name, ...)
    -> the (possibly new) simfile object"""
    import os
    import simfile
    names = sorted(n for n in os.listdir(files.dir) if os.path.isfile(os.path.join(files.dir, n)))
    q = rng.random()
    vals = "".join(v or "" for v in sf.values())
    if q < 0.35 or not names:
        if "\r" in vals or len(names) >= 4:
            return sf
        name = rng.choice(FILE_NAMES)
        before = None
        if os.path.exists(files.path(name)):
            with open(files.path(name), "rb") as f:
                before = f.read()

        def undo():
            if before is None:
                if os.path.exists(files.path(name)):
                    os.remove(files.path(name))
            else:
                with open(files.path(name), "wb") as f:
                    f.write(before)
        try:
            with open(files.path(name), "w", encoding="utf-8", newline="") as f:
                sf.serialize(f)
        except Exception:  # noqa
            undo()
            return sf
        with open(files.path(name), "rb") as f:
            text = f.read().decode("utf-8")
        if len(text) > 900 or "\r" in text:          # (CR: text-mode newline translation is not the library's)
            undo()
            return sf
        log("writefile", sf, name=cps(name), text=cps(text), fsafter=files.snapshot())
    elif q < 0.65:
        name = rng.choice(names)
        strict = rng.random() < 0.7
        try:
            new = simfile.open(files.path(name), strict=strict)
            sf = new
            log("openfile", sf, name=cps(name), strict=strict, res="ok", fsafter=files.snapshot())
        except Exception as e:  # noqa
            log("openfile", sf, name=cps(name), strict=strict, res=type(e).__name__, fsafter=files.snapshot())
    else:
        name = rng.choice(names)
        free = [n for n in FILE_NAMES + ["out.sm", "out.ssc", "backup.old"] if n != name]
        out = rng.choice(free) if rng.random() < 0.4 else None
        bak = rng.choice([n for n in free if n != out]) if rng.random() < 0.5 else None
        body = rng.choice(["normal", "normal", "normal", "CancelMutation", "KeyError", "ZeroDivisionError"])
        if body != "normal" and rng.random() < 0.4:
            # destinations inside a directory that does not exist: a block that is cancelled or raises creates nothing at all
            if out and rng.random() < 0.7:
                out = "newdir/" + out
            if bak:
                bak = rng.choice(["backups/", "newdir/", "a/b/"]) + bak
        edits = []
        kw = {}
        if out:
            kw["output_filename"] = files.path(out)
        if bak:
            kw["backup_filename"] = files.path(bak)
        if body == "normal" and rng.random() < 0.12:
            # the backup "file" named is the DIRECTORY that holds the input: it cannot be opened for writing, the save is refused
            body, bak = "unwritable", "."
            kw["backup_filename"] = files.dir if rng.random() < 0.5 else files.dir + os.sep
        try:
            with simfile.mutate(files.path(name), **kw) as m:
                for _ in range(rng.randint(0, 3)):
                    r = rng.random()
                    if r < 0.5:
                        k, v = rng.choice(["TITLE", "ARTIST", "STOPS", "FREEZES", "XKEY", "VERSION"]), val(rng)
                        m[k] = v
                        edits.append({"op": "setkey", "k": cps(k), "v": cps(v)})
                    elif r < 0.8:
                        a, v = rng.choice(["title", "stops", "bgchanges"]), val(rng)
                        setattr(m, a, v)
                        edits.append({"op": "setattr", "name": cps(a.upper()), "v": cps(v)})
                    elif len(m):
                        k = rng.choice(list(m.keys()))
                        del m[k]
                        edits.append({"op": "delkey", "k": cps(k)})
                if body == "CancelMutation":
                    raise simfile.CancelMutation()
                if body == "KeyError":
                    raise KeyError("from the body")
                if body == "ZeroDivisionError":
                    raise ZeroDivisionError("from the body")
            res = "ok"
        except Exception as e:  # noqa
            res = type(e).__name__
        snap = files.snapshot()
        byname = {uncps(x["n"]): x["t"] for x in snap}
        texts = {"out": byname.get(out or name, []), "bak": byname.get(bak, []) if bak else []}
        if any("\r" in uncps(t) for t in byname.values()) or any(len(t) > 1200 for t in byname.values()):
            evs.append({"op": "harness-stop"})
            return sf
        log("mutatefile", sf, name=cps(name), out=cps(out or ""), bak=cps(bak or ""), edits=edits, body=body, res=res, texts=texts, fsafter=snap)
    return sf


def session(rid, seed, tosm_bias=False, timing_bias=False, file_bias=False):
    import simfile
    from simfile.sm import SMSimfile, SMChart
    from simfile.ssc import SSCSimfile, SSCChart
    from simfile.convert import sm_to_ssc
    rng = random.Random(seed)
    fmt = rng.choice(["sm", "ssc"]) if not tosm_bias else "ssc"
    if timing_bias:
        fmt = rng.choice(["sm", "ssc", "ssc"])
    evs = []

    def log(op, sf, **kw):
        e = {"op": op, "after": after(sf)}
        e.update(kw)
        evs.append(e)
    r = rng.random()
    if timing_bias and r < 0.8:
        # a small simfile with one or two charts and a first BPM
        sf = (SMSimfile if fmt == "sm" else SSCSimfile).blank() if r < 0.4 else (SMSimfile if fmt == "sm" else SSCSimfile)(string="")
        sf["BPMS"] = rng.choice(SMOOTH["BPMS"])
        for _ in range(rng.randint(1, 2)):
            c = (SMChart if fmt == "sm" else SSCChart).blank()
            c.notes = tick_notes(rng).strip() if fmt == "sm" else tick_notes(rng)
            sf.charts.append(c)
        log("create", sf)
    elif r < 0.4:
        sf = (SMSimfile if fmt == "sm" else SSCSimfile).blank()
        log("create", sf)
    elif r < 0.5:
        sf = (SMSimfile if fmt == "sm" else SSCSimfile)(string="")
        log("create", sf)
    else:
        from . import c03
        text = c03.gen_text(rng)
        if c03.lone_backslash(text) or len(text) > 600:
            text = "#TITLE:t;\n#FREEZES:1=2;\n#ANIMATIONS:x;\n" if fmt == "sm" else "#VERSION:0.83;\n#TITLE:t;\n#NOTEDATA:;\n#NOTES2:0000;\n"
        strict = rng.random() < 0.5
        entry = rng.choice(["anon", "sm_ctor", "ssc_ctor"])
        try:
            if entry == "anon":
                sf = simfile.loads(text, strict=strict)
            else:
                sf = (SMSimfile if entry == "sm_ctor" else SSCSimfile)(string=text, strict=strict)
            fmt = cc.fmt_of(sf)
            log("load", sf, text=cps(text), strict=strict, entry=entry, res="ok")
        except Exception as e:  # noqa
            sf = (SMSimfile if fmt == "sm" else SSCSimfile).blank()
            evs.append({"op": "load", "text": cps(text), "strict": strict, "entry": entry, "res": type(e).__name__,
                        "after": {"fmt": "sm", "items": [], "charts": []}})
            log("create", sf)
    text = None
    files = None
    for _ in range(rng.randint(3, 25)):
        r = rng.random()
        keys = list(sf.keys())
        try:
            if timing_bias and rng.random() < 0.6:
                timing_step(rng, sf, fmt, log)
                continue
            if file_bias and rng.random() < 0.45:
                if files is None:
                    files = _Files()
                sf = file_step(rng, sf, files, log, evs)
                fmt = cc.fmt_of(sf)
                if evs and evs[-1]["op"] == "harness-stop":
                    evs.pop()
                    break
                continue
            if r < 0.10:
                k = rng.choice(keys) if keys and rng.random() < 0.5 else rng.choice(["TITLE", "STOPS", "FREEZES", "BGCHANGES", "ANIMATIONS", "XKEY", "ARTIST"])
                v = val(rng)
                sf[k] = v
                log("setkey", sf, k=cps(k), v=cps(v))
            elif r < 0.15:
                k = rng.choice(keys) if keys and rng.random() < 0.7 else "NOPE"
                try:
                    del sf[k]
                    log("delkey", sf, k=cps(k), res="ok")
                except KeyError:
                    log("delkey", sf, k=cps(k), res="KeyError")
            elif r < 0.22:
                a = rng.choice(ATTRS[fmt])
                got = getattr(sf, a)
                log("getattr", sf, name=cps(a.upper()), res=cps(got))
            elif r < 0.31:
                a = rng.choice(ATTRS[fmt])
                v = val(rng)
                setattr(sf, a, v)
                log("setattr", sf, name=cps(a.upper()), v=cps(v))
            elif r < 0.35:
                a = rng.choice(ATTRS[fmt])
                try:
                    delattr(sf, a)
                    log("delattr", sf, name=cps(a.upper()), res="ok")
                except KeyError:
                    log("delattr", sf, name=cps(a.upper()), res="KeyError")
            elif r < 0.41 and len(sf.charts) < 3:
                c = (SMChart if fmt == "sm" else SSCChart).blank()
                sf.charts.append(c)
                log("appendchart", sf, chart=chart_proj(c, fmt))
            elif r < 0.44 and sf.charts:
                j = rng.randrange(len(sf.charts))
                sf.charts.pop(j)
                log("removechart", sf, j=j + 1)
            elif r < 0.46 and len(sf.charts) >= 2:
                i, j = rng.sample(range(len(sf.charts)), 2)
                sf.charts[i], sf.charts[j] = sf.charts[j], sf.charts[i]
                log("swapcharts", sf, i=i + 1, j=j + 1)
            elif r < 0.55 and sf.charts:
                j = rng.randrange(len(sf.charts))
                c = sf.charts[j]
                if fmt == "sm":
                    f = rng.randrange(6)
                    v = val(rng).strip()
                    if v.startswith("#"):
                        v = "0" + v
                    if rng.random() < 0.5:
                        setattr(c, SMF[f], v)
                    else:
                        c[SMF[f].upper()] = v
                    log("setchartfield", sf, j=j + 1, f=f + 1, v=cps(v))
                else:
                    name = rng.choice(["NOTES", "STEPSTYPE", "CREDIT", "XCHART", "NOTES2", "BPMS", "OFFSET", "STOPS"])
                    v = val(rng)
                    if name == "NOTES" and rng.random() < 0.6:
                        c.notes = v                       # attribute: goes to NOTES2 when that alias is the one present
                    else:
                        if name == "NOTES2" and "NOTES" in c:
                            continue
                        if name == "NOTES" and "NOTES2" in c:
                            continue                      # (key write of the standard name next to the alias: both present - not generated)
                        c[name] = v
                    log("setchartitem", sf, j=j + 1, name=cps(name), v=cps(v))
            elif r < 0.58 and sf.charts and fmt == "ssc":
                j = rng.randrange(len(sf.charts))
                c = sf.charts[j]
                k = rng.choice([k for k in c.keys() if k not in ("NOTES", "NOTES2")] or ["NOPE"])
                try:
                    del c[k]
                    log("delchartitem", sf, j=j + 1, k=cps(k), res="ok")
                except KeyError:
                    log("delchartitem", sf, j=j + 1, k=cps(k), res="KeyError")
            elif r < 0.61 and sf.charts and fmt == "sm":
                j = rng.randrange(len(sf.charts))
                ex = [val(rng, 4).replace("#", "") for _ in range(rng.randint(0, 2))]
                sf.charts[j].extradata = ex or None
                log("setchartextra", sf, j=j + 1, extra=[cps(x) for x in ex])
            elif r < 0.72 and sf.charts:
                # write well-formed note data into a chart, or read a chart's notes back through NoteData
                from simfile.notes import NoteData
                from . import notedata_common as nc
                from . import c14
                j = rng.randrange(len(sf.charts))
                c = sf.charts[j]
                q = rng.random()
                if q < 0.2:
                    # a note stream written through NoteData.from_notes
                    notes, cols = nc.gen_stream(rng, max_chars=200)
                    t = str(NoteData.from_notes((nc.build_note(d) for d in notes), cols))
                    c.notes = t.strip() if fmt == "sm" else t
                    log("writenotes", sf, j=j + 1, notes=notes, cols=cols)
                elif q < 0.4:
                    txt = c.notes
                    if txt is None or not isinstance(txt, str) or any(ch not in "0123456789AFKLM[],\r\n \t" for ch in txt) or not txt.strip():
                        continue
                    if "&" in txt or len(txt) > 220 or sum(ch in "123456789AFKLM" for ch in txt) > 24:
                        continue                      # (the counting rules of Grouping.tla are stated for single-player streams; TLC's work bounded)
                    from simfile.notes import count as cnt
                    try:
                        nd = NoteData(c)
                        res = {"steps": cnt.count_steps(nd), "jumps": cnt.count_jumps(nd), "hands": cnt.count_hands(nd), "mines": cnt.count_mines(nd)}
                    except Exception:  # noqa  (arbitrary text in a NOTES value is not note data)
                        continue
                    log("countnotes", sf, j=j + 1, res=res)
                elif q < 0.7:
                    t = nc.gen_text(rng, max_chars=160)
                    if fmt == "sm":
                        t = t.strip()
                        c.notes = t
                        log("setchartfield", sf, j=j + 1, f=6, v=cps(t))
                    else:
                        c.notes = t
                        log("setchartitem", sf, j=j + 1, name=cps("NOTES"), v=cps(t))
                else:
                    txt = c.notes
                    if txt is None or not isinstance(txt, str) or any(ch not in "0123456789AFKLM[],&\r\n \t" for ch in txt) or not txt.strip():
                        continue
                    try:
                        notes = [nc.proj_note(x) for x in NoteData(c)]
                    except Exception:  # noqa  (arbitrary text in a NOTES value is not note data)
                        continue
                    log("readnotes", sf, j=j + 1, res=notes)
            elif r < 0.80:
                from simfile.timing import TimingData
                from . import c14
                name = rng.choice(["BPMS", "STOPS", "DELAYS", "WARPS"])
                if rng.random() < 0.6:
                    rows = ["%d.%03d=%d.%02d" % (rng.randint(0, 90), rng.choice([0, 250, 500, 333, 21]), rng.randint(0, 400), rng.randint(0, 99))
                            for _ in range(rng.randint(0, 3))]
                    v = rng.choice([",", ",\n", " , "]).join(rows)
                    sf[name] = v
                    log("setkey", sf, k=cps(name), v=cps(v))
                else:
                    if not sf.get("BPMS") and name != "BPMS":
                        pass
                    try:
                        td = TimingData(sf)
                        tevs = c14.pevs(getattr(td, name.lower()))
                        if tevs is None:
                            continue
                        log("readtiming", sf, name=cps(name), res={"st": "ok", "evs": tevs})
                    except Exception as e:  # noqa
                        # TimingData reads all five fields at once: only a failure caused by THIS list is attributable
                        continue
            elif r < (0.95 if not tosm_bias else 0.85):
                on_disk = rng.random() < 0.4 and "\r" not in "".join(v or "" for v in sf.values())
                try:
                    if on_disk:
                        # through a real (in-memory) filesystem: serialize into a file, read the bytes back
                        from fs.memoryfs import MemoryFS
                        mem = MemoryFS()
                        path = "/song." + fmt
                        with mem.open(path, "w", encoding="utf-8") as f:
                            sf.serialize(f)
                        text = mem.readbytes(path).decode("utf-8")
                    else:
                        text = str(sf)
                except Exception:  # noqa
                    continue
                if len(text) > 900:
                    continue
                log("save", sf, text=cps(text))
                if rng.random() < 0.7:
                    first_version = bool(sf) and next(iter(sf.keys())) == "VERSION"
                    detect = rng.random() < 0.5 and ((fmt == "sm") != first_version)
                    try:
                        if on_disk:
                            sf = simfile.open(path, filesystem=mem)          # format from the file name's extension
                            detect = False
                        else:
                            sf = simfile.loads(text) if detect else type(sf)(string=text)
                        log("reopen", sf, detect=detect)
                    except Exception as e:  # noqa
                        evs.append({"op": "reopen", "detect": detect, "after": {"fmt": "?", "items": [], "charts": [], "raised": type(e).__name__}})
                        break
            elif fmt == "sm":
                tmpl, ctmpl = SSCSimfile.blank(), SSCChart.blank()
                try:
                    out = sm_to_ssc(sf)
                    sf, fmt = out, "ssc"
                    log("tossc", sf, tmpl=cc.proj_items(tmpl), ctmpl=cc.proj_items(ctmpl), res="ok")
                except Exception as e:  # noqa
                    pass        # (negative timing values / unparsable timing strings: not part of a session)
            else:
                # ssc_to_sm under a random policy; the object becomes an SM simfile when it succeeds
                from simfile.convert import ssc_to_sm
                from . import convert_common as cv
                kinds = ["version", "metadata", "filepath", "gameplay", "timing"]
                beh = [(k, rng.choice(["copy", "ignore", "unlessdefault", "error"])) for k in kinds if rng.random() < 0.35]
                tmpl, ctmpl = SMSimfile.blank(), SMChart.blank()
                args = dict(tmpl=cc.proj_items(tmpl), ctmpl=chart_proj(ctmpl, "sm"), beh=[{"kind": k, "b": b} for k, b in beh])
                try:
                    out = ssc_to_sm(sf, invalid_property_behaviors=cv.beh_enum(beh)) if beh or rng.random() < 0.5 else ssc_to_sm(sf)
                    sf, fmt = out, "sm"
                    log("tosm", sf, res={"st": "ok", "msg": []}, **args)
                except Exception as e:  # noqa
                    log("tosm", sf, res={"st": type(e).__name__, "msg": cps(str(e))}, **args)
        except Exception as e:  # noqa
            evs.append({"op": "harness-note", "after": after(sf), "note": "%s: %r" % (type(e).__name__, e)})
            break
    if files is not None:
        files.close()
    evs = [e for e in evs if e["op"] != "harness-note"]
    return {"id": rid, "events": evs}


def run_sessions(ctx, n, seed, tosm_bias=False, timing_bias=False, file_bias=False):
    jobs = [(i, seed * 8191 + i, tosm_bias, timing_bias, file_bias) for i in range(n)]
    sessions = core.pmap(_job, jobs, chunk=25)
    parts = core.chunks(sessions, 16)
    jobs2 = []
    for part in parts:
        text = "".join(json.dumps(s, ensure_ascii=True) + "\n" for s in part)
        jobs2.append(dict(module="Trace_System", cfg="SPECIFICATION TraceSpec\nINVARIANT InvType\n", dirs=DIRS,
                          files={"trace.ndjson": text}, env={"TRACE_FILE": "trace.ndjson"}, timeout=3000, heap="4g"))
    results = tlc.run_many(jobs2, parallel=16)
    verdict = {}
    for res in results:
        tlc.require_ok(res, "Trace_System")
        ctx.states += res.distinct
        ctx.transitions += res.generated
        for v in res.printed:
            verdict[v["id"]] = v
    ctx.tlc_runs.append({"name": "Trace_System x%d" % len(jobs2), "distinct": sum(r.distinct for r in results),
                         "generated": sum(r.generated for r in results), "wall_s": round(max(r.wall for r in results), 1)})
    if len(verdict) != len(sessions):
        raise core.MachineryError("Trace_System: %d verdicts for %d sessions" % (len(verdict), len(sessions)))
    return sessions, verdict


def _job(job):
    return session(*job)


def _label(e):
    """the kind of an event for attribution: a mutate whose body did not end normally is judged by C06"""
    if e["op"] == "mutatefile" and e.get("body") != "normal":
        return "mutatefile-failed"
    return e["op"]


def judge(ctx, pid, sessions, verdict, ops, what):
    """report the sessions rejected at an event whose kind belongs to this property"""
    acc = rej_other = dom = 0
    for s in sessions:
        v = verdict[s["id"]]
        ctx.traces += 1
        ctx.evaluations += len(s["events"])
        if v["verdict"] == "ACCEPT":
            acc += 1
            ctx.nontrivial_add(("session", json.dumps(s["events"][:3])[:300], len(s["events"])))
        elif v["verdict"] == "domain":
            dom += 1
        elif _label(s["events"][v["at"] - 1]) in ops:
            e = s["events"][v["at"] - 1]
            shown = {k: (uncps(x) if isinstance(x, list) and x and isinstance(x[0], int) else x) for k, x in e.items() if k not in ("after", "tmpl", "ctmpl")}
            ctx.violation("%s:session:%s" % (pid, v["op"]),
                          "%s: recorded session %d rejected by System.tla at event %d (%s): %s; state before: %s" % (
                              what, s["id"], v["at"], v["op"], json.dumps(shown)[:400],
                              json.dumps(s["events"][v["at"] - 2]["after"] if v["at"] >= 2 else {})[:400]),
                          {"mode": "session", "seed_id": s["id"], "at": v["at"]})
        else:
            rej_other += 1
    ctx.notes["sessions_accepted"] = acc
    ctx.notes["sessions_ending_outside_the_serializer_domain"] = dom
    ctx.notes["sessions_rejected_at_an_event_judged_by_another_property"] = rej_other


# ---- specification -> code: every transition of the bounded model MC_System, stepped through the real library ------

OP_OWNER = {"getattr": "C18", "setattr": "C18", "delattr": "C18", "setkey": "C18", "delkey": "C18", "appendchart": "C18",
            "removechart": "C18", "swapcharts": "C18", "setchartitem": "C18", "delchartitem": "C18", "setchartfield": "C18",
            "save": "C04", "reopen": "C04", "tossc": "C16", "tosm": "C17", "readnotes": "C07", "countnotes": "C09",
            "readtiming": "C14", "timenotes": "C13", "writefile": "C04", "openfile": "C03", "mutatefile": "C05"}
MC_INVS = ["InvTypeOK", "InvSaveReopen", "InvViews", "InvConvertRoundTrip"]
MC_ACTIONS = {"edit": ["setkey", "delkey", "getattr", "setattr", "delattr", "appendchart", "removechart",
                       "readnotes", "countnotes", "readtiming"],
              "save": ["setkey", "save", "reopen", "appendchart"],
              "tossc": ["setkey", "tossc", "save", "reopen"],
              "tosm": ["setkey", "tosm", "save", "reopen"],
              "timing": ["setkey", "delkey", "setattr", "appendchart", "timenotes"],
              "files": ["setkey", "writefile", "openfile", "mutatefile"]}


def mc_cfg(fmt0, focus, items, charts, depth, emit):
    invs = ["InvTypeOK", "InvTimesMonotone"] if focus == "timing" else ["InvTypeOK", "InvFsNames"] if focus == "files" else MC_INVS
    return ("SPECIFICATION Spec\nCONSTANTS Fmt0 = \"%s\" Focus = \"%s\" MaxItems = %d MaxCharts = %d MaxDepth = %d DoEmit = %s\n"
            "VIEW View\nCONSTRAINT Bound\nACTION_CONSTRAINT Emit\n" % (fmt0, focus, items, charts, depth, "TRUE" if emit else "FALSE")
            + "".join("INVARIANT %s\n" % i for i in invs) + ("PROPERTY SourceIsolation\n" if focus == "timing" else "PROPERTY FilesFrame\n" if focus == "files" else ""))


class _Mismatch(Exception):
    def __init__(self, at, what):
        Exception.__init__(self, what)
        self.at = at
        self.what = what


def _mk_chart(fmt, ch):
    from simfile.sm import SMChart
    from simfile.ssc import SSCChart
    if fmt == "sm":
        c = SMChart.from_msd([cc.fresh(f) for f in ch["fields"]])
        c.extradata = [cc.fresh(x) for x in ch["extra"]] or None
        return c
    c = SSCChart()
    for e in ch:
        c[cc.fresh(e["k"])] = cc.fresh(e["v"])
    return c


def _mk_simfile(fmt, items):
    from simfile.sm import SMSimfile
    from simfile.ssc import SSCSimfile
    sf = (SMSimfile if fmt == "sm" else SSCSimfile)(string="")
    for e in items:
        sf[cc.fresh(e["k"])] = cc.fresh(e["v"])
    return sf


def replay_path(fmt0, rec):
    """step the real library along rec["hist"]; every logged result and the final state must be the specification's.
    -> None, or (index of the offending call, text)"""
    import simfile
    from simfile.convert import sm_to_ssc, ssc_to_sm
    from simfile.notes import NoteData
    from simfile.notes import count as cnt
    from simfile.timing import TimingData
    from fractions import Fraction
    from decimal import Decimal
    from . import notedata_common as nc
    from . import convert_common as cv
    sf = _mk_simfile(fmt0, [])
    st = {"disk": None}

    def res_of(fn, *exc):
        try:
            fn()
            return "ok"
        except exc as e:  # noqa
            return type(e).__name__
    try:
        for at, o in enumerate(rec["hist"]):
            op = o["op"]
            fmt = cc.fmt_of(sf)
            if op == "setkey":
                sf[cc.fresh(o["k"])] = cc.fresh(o["v"])
            elif op == "delkey":
                k = cc.fresh(o["k"])
                r = res_of(lambda: sf.__delitem__(k), KeyError)
                if r != o["res"]:
                    raise _Mismatch(at, "del sf[%r]: %s, the specification says %s" % (k, r, o["res"]))
            elif op == "getattr":
                got = getattr(sf, uncps(o["name"]).lower())
                if cps(got) != o["res"]:
                    raise _Mismatch(at, "sf.%s reads %r, the specification says %r" % (uncps(o["name"]).lower(), got, uncps(o["res"])))
            elif op == "setattr":
                setattr(sf, uncps(o["name"]).lower(), cc.fresh(o["v"]))
            elif op == "delattr":
                name = uncps(o["name"]).lower()
                r = res_of(lambda: delattr(sf, name), KeyError)
                if r != o["res"]:
                    raise _Mismatch(at, "del sf.%s: %s, the specification says %s" % (name, r, o["res"]))
            elif op == "appendchart":
                sf.charts.append(_mk_chart(fmt, o["chart"]))
            elif op == "removechart":
                sf.charts.pop(o["j"] - 1)
            elif op == "swapcharts":
                i, j = o["i"] - 1, o["j"] - 1
                sf.charts[i], sf.charts[j] = sf.charts[j], sf.charts[i]
            elif op == "setchartitem":
                c = sf.charts[o["j"] - 1]
                name = uncps(o["name"])
                if name == "NOTES":
                    c.notes = cc.fresh(o["v"])
                else:
                    c[name] = cc.fresh(o["v"])
            elif op == "delchartitem":
                c = sf.charts[o["j"] - 1]
                k = uncps(o["k"])
                r = res_of(lambda: c.__delitem__(k), KeyError)
                if r != o["res"]:
                    raise _Mismatch(at, "del chart[%r]: %s, the specification says %s" % (k, r, o["res"]))
            elif op == "setchartfield":
                c = sf.charts[o["j"] - 1]
                if (at + o["f"]) % 2:
                    setattr(c, SMF[o["f"] - 1], cc.fresh(o["v"]))
                else:
                    c[SMF[o["f"] - 1].upper()] = cc.fresh(o["v"])
            elif op == "save":
                text = str(sf)
                st["disk"] = text
                re_ = type(sf)(string=text)
                if cc.proj(re_) != o["reload"]:
                    raise _Mismatch(at, "the saved text re-opens as %s, the specification says %s" % (
                        json.dumps(cc.proj(re_))[:300], json.dumps(o["reload"])[:300]))
            elif op == "reopen":
                sf = simfile.loads(st["disk"]) if o["detect"] else type(sf)(string=st["disk"])
            elif op == "tossc":
                sf = sm_to_ssc(sf, simfile_template=_mk_simfile("ssc", o["tmpl"]), chart_template=_mk_chart("ssc", o["ctmpl"]))
            elif op == "tosm":
                beh = cv.beh_enum([(b["kind"], b["b"]) for b in o["beh"]])
                try:
                    out = ssc_to_sm(sf, simfile_template=_mk_simfile("sm", o["tmpl"]), chart_template=_mk_chart("sm", o["ctmpl"]),
                                    invalid_property_behaviors=beh)
                    r, msg = "ok", ""
                except Exception as e:  # noqa
                    out, r, msg = None, type(e).__name__, str(e)
                if r != o["st"]:
                    raise _Mismatch(at, "ssc_to_sm under %s: %s, the specification says %s" % (json.dumps(o["beh"]), r, o["st"]))
                if r == "InvalidPropertyException" and uncps(o["key"]) not in msg:
                    raise _Mismatch(at, "ssc_to_sm names %r, the first property that must be refused is %s" % (msg, uncps(o["key"])))
                if out is not None:
                    sf = out
            elif op == "readnotes":
                got = [nc.proj_note(x) for x in NoteData(sf.charts[o["j"] - 1])]
                if got != o["res"]:
                    raise _Mismatch(at, "NoteData(chart) yields %s, the specification says %s" % (json.dumps(got)[:300], json.dumps(o["res"])[:300]))
            elif op == "countnotes":
                nd = NoteData(sf.charts[o["j"] - 1])
                got = {"steps": cnt.count_steps(nd), "jumps": cnt.count_jumps(nd), "hands": cnt.count_hands(nd), "mines": cnt.count_mines(nd)}
                if got != o["res"]:
                    raise _Mismatch(at, "counts %s, the specification says %s" % (json.dumps(got), json.dumps(o["res"])))
            elif op == "timenotes":
                from simfile.notes.timed import time_notes, UnhittableNotes
                c = sf.charts[o["j"] - 1]
                got = []
                for tn in time_notes(NoteData(c), TimingData(sf, c), getattr(UnhittableNotes, TIMED_OPTS[o["opt"]])):
                    d = nc.proj_note(tn.note)
                    d["tm"] = int(round(float(tn.time) * 286720))
                    got.append(d)
                if got != o["res"]:
                    raise _Mismatch(at, "time_notes(%s) yields %s, the specification says %s" % (o["opt"], json.dumps(got)[:400], json.dumps(o["res"])[:400]))
            elif op == "writefile":
                if st.get("files") is None:
                    st["files"] = _Files()
                with open(st["files"].path(uncps(o["name"])), "w", encoding="utf-8", newline="") as f:
                    sf.serialize(f)
            elif op == "openfile":
                try:
                    new_sf = simfile.open(st["files"].path(uncps(o["name"])), strict=True)
                    r = "ok"
                except Exception as e:  # noqa
                    new_sf, r = None, type(e).__name__
                if r != o["res"]:
                    raise _Mismatch(at, "simfile.open(%r): %s, the specification says %s" % (uncps(o["name"]), r, o["res"]))
                if new_sf is not None:
                    sf = new_sf
            elif op == "mutatefile":
                fl = st["files"]
                kw = {}
                if o["out"]:
                    kw["output_filename"] = fl.path(uncps(o["out"]))
                if o["bak"]:
                    kw["backup_filename"] = fl.path(uncps(o["bak"]))
                try:
                    with simfile.mutate(fl.path(uncps(o["name"])), **kw) as m:
                        for e in o["edits"]:
                            if e["op"] == "setkey":
                                m[uncps(e["k"])] = cc.fresh(e["v"])
                            elif e["op"] == "setattr":
                                setattr(m, uncps(e["name"]).lower(), cc.fresh(e["v"]))
                            else:
                                del m[uncps(e["k"])]
                        if o["body"] == "CancelMutation":
                            raise simfile.CancelMutation()
                        if o["body"] == "KeyError":
                            raise KeyError("from the body")
                    r = "ok"
                except Exception as e:  # noqa
                    r = type(e).__name__
                if r != o["res"]:
                    raise _Mismatch(at, "simfile.mutate(%r, out=%r, backup=%r) with a body ending %s: %s, the specification says %s" % (
                        uncps(o["name"]), uncps(o["out"]), uncps(o["bak"]), o["body"], r, o["res"]))
            elif op == "readtiming":
                td = TimingData(sf)
                got = [(Fraction(e.beat), Decimal(e.value)) for e in getattr(td, uncps(o["name"]).lower())]
                want = [(Fraction(e["k"], 48), Decimal(e["v"]["m"]).scaleb(-e["v"]["e"])) for e in o["evs"]]
                if got != want:
                    raise _Mismatch(at, "TimingData.%s is %r, the specification says %r" % (uncps(o["name"]).lower(), got, want))
            else:
                raise core.MachineryError("unknown op %s" % op)
        at = len(rec["hist"]) - 1
        if rec.get("files") or st.get("files") is not None:
            import os
            fl = st.get("files")
            have = sorted(os.listdir(fl.dir)) if fl is not None else []
            want = sorted(uncps(f["n"]) for f in rec.get("files", []))
            if have != want:
                raise _Mismatch(at, "the files afterwards are %r, the specification says %r" % (have, want))
            for f in rec.get("files", []):
                name = uncps(f["n"])
                try:
                    got = simfile.open(fl.path(name), strict=True)
                    gst, gobj = "ok", dict(cc.proj(got), fmt=cc.fmt_of(got))
                except Exception as e:  # noqa
                    gst, gobj = type(e).__name__, None
                if gst != f["st"]:
                    raise _Mismatch(at, "file %r opens with %s, the specification says %s" % (name, gst, f["st"]))
                if gobj is not None and (gobj["fmt"] != f["fmt"] or {"items": gobj["items"], "charts": gobj["charts"]} != f["obj"]):
                    raise _Mismatch(at, "file %r holds %s, the specification says %s %s" % (name, json.dumps(gobj)[:300], f["fmt"], json.dumps(f["obj"])[:300]))
        if after(sf) != rec["obj"]:
            raise _Mismatch(at, "state after the call is %s, the specification says %s" % (json.dumps(after(sf))[:400], json.dumps(rec["obj"])[:400]))
    except _Mismatch as m:
        return (m.at, m.what)
    except Exception as e:  # noqa
        return (at, "%s: %s" % (type(e).__name__, e))
    finally:
        if st.get("files") is not None:
            st["files"].close()
    return None


def _replay_job(job):
    return replay_path(*job)


def mc_system(ctx, pid, runs, ops=None):
    """runs: list of (fmt0, focus, items, charts, depth).  TLC explores each bounded model exhaustively with the
    system invariants; every transition it took is then stepped through the real library.  A mismatch is reported by
    the check that owns the kind of the offending call (OP_OWNER)."""
    jobs = [dict(module="MC_System", cfg=mc_cfg(f, fo, it, ch, d, True), dirs=DIRS, workers=max(2, 16 // len(runs)),
                 timeout=3000, heap="3g") for (f, fo, it, ch, d) in runs]
    results = tlc.run_many(jobs, parallel=len(jobs))
    total = other = 0
    for (f, fo, it, ch, d), res in zip(runs, results):
        name = "MC_System %s/%s items<=%d charts<=%d depth<=%d" % (f, fo, it, ch, d)
        if res.invariant_violated or "is violated" in (res.error_text or ""):
            res.invariant_violated = res.invariant_violated or "SourceIsolation"
            ctx.violation("%s:mc-system:%s" % (pid, res.invariant_violated),
                          "the specification's own system invariant %s fails in the bounded model %s" % (res.invariant_violated, name),
                          {"mode": "mc-system-invariant", "run": [f, fo, it, ch, d]})
            continue
        tlc.require_ok(res, name)
        ctx.add_tlc(name, res)
        recs = res.printed
        taken = {}
        for r in recs:
            taken[r["hist"][-1]["op"]] = taken.get(r["hist"][-1]["op"], 0) + 1
        ctx.tlc_runs[-1]["transitions_by_call"] = taken
        for a in MC_ACTIONS[fo]:        # vacuity: every call kind of this focus was explored (and is replayed below)
            if not taken.get(a):
                raise core.MachineryError("vacuity: call %s never taken in %s" % (a, name))
        out = core.pmap(_replay_job, [(f, r) for r in recs], chunk=100)
        for r, bad in zip(recs, out):
            total += 1
            ctx.traces += 1
            ctx.evaluations += len(r["hist"])
            if bad is None:
                continue
            at, what = bad
            op = r["hist"][at]["op"]
            owner = OP_OWNER.get(op)
            if op == "mutatefile" and r["hist"][at].get("body") != "normal":
                owner = "C06"             # (a cancelled / raising block: C06's clause)
            if owner != pid and (ops is None or op not in ops):
                other += 1
                continue
            calls = [{k: (uncps(x) if isinstance(x, list) and (not x or isinstance(x[0], int)) else x) for k, x in o.items()
                      if k not in ("tmpl", "ctmpl", "reload", "res", "evs")} for o in r["hist"][:at + 1]]
            ctx.violation("%s:mc-system:%s" % (pid, op),
                          "a transition of the bounded System model does not replay on the library (%s, call %d of the path): %s; calls: %s" % (
                              name, at + 1, what, json.dumps(calls)[:500]),
                          {"mode": "mc-system", "fmt0": f, "rec": r})
        ctx.sample({"mc_system": name, "path": [o["op"] for o in recs[len(recs) // 2]["hist"]]})
    ctx.notes["mc_system_transitions_replayed"] = ctx.notes.get("mc_system_transitions_replayed", 0) + total
    ctx.notes["mc_system_mismatches_owned_by_another_property"] = other


MC_RUNS = {  # pid -> (quick runs, thorough runs): (fmt0, focus, MaxItems, MaxCharts, MaxDepth)
    "C18": ([("sm", "edit", 2, 1, 4), ("ssc", "edit", 2, 1, 4)], [("sm", "edit", 3, 2, 5), ("ssc", "edit", 3, 1, 5)]),
    "C04": ([("sm", "save", 2, 1, 4), ("ssc", "save", 2, 1, 4)], [("sm", "save", 3, 2, 5), ("ssc", "save", 3, 1, 5)]),
    "C16": ([("sm", "tossc", 2, 1, 4)], [("sm", "tossc", 3, 1, 5)]),
    "C17": ([("ssc", "tosm", 2, 1, 3)], [("ssc", "tosm", 2, 1, 4)]),
    "C05": ([("sm", "files", 2, 1, 3), ("ssc", "files", 2, 1, 3)], [("sm", "files", 3, 1, 3), ("ssc", "files", 3, 1, 3)]),
    "C06": ([("sm", "files", 2, 1, 3), ("ssc", "files", 2, 1, 3)], [("sm", "files", 3, 1, 3), ("ssc", "files", 3, 1, 3)]),
    "C13": ([("sm", "timing", 2, 1, 4), ("ssc", "timing", 2, 1, 4)], [("sm", "timing", 3, 1, 5), ("ssc", "timing", 3, 1, 5)]),
    "C15": ([("ssc", "timing", 3, 1, 4)], [("ssc", "timing", 3, 1, 5)]),
    "C07": ([("sm", "edit", 1, 1, 3), ("ssc", "edit", 1, 1, 3)], [("sm", "edit", 2, 2, 4), ("ssc", "edit", 2, 1, 4)]),
    "C09": ([("sm", "edit", 1, 1, 3), ("ssc", "edit", 1, 1, 3)], [("sm", "edit", 2, 2, 4), ("ssc", "edit", 2, 1, 4)]),
    "C14": ([("sm", "edit", 2, 1, 3), ("ssc", "edit", 2, 1, 3)], [("sm", "edit", 3, 1, 4), ("ssc", "edit", 3, 1, 4)]),
}


def mc_for(ctx, pid):
    q, t = MC_RUNS[pid]
    mc_system(ctx, pid, q if ctx.quick else t)


def replay(rec):
    """./check CNN --replay file, for violations found by the System engine"""
    case = rec["case"]
    print(rec.get("what"))
    if case.get("mode") == "mc-system":
        bad = replay_path(case["fmt0"], case["rec"])
        for i, o in enumerate(case["rec"]["hist"]):
            print("  call %d: %s" % (i + 1, json.dumps({k: (uncps(x) if isinstance(x, list) and (not x or isinstance(x[0], int)) else x)
                                                            for k, x in o.items() if k not in ("tmpl", "ctmpl", "reload")})[:300]))
        if bad is None:
            print("replays without a mismatch on this tree")
            return 0
        print("mismatch at call %d: %s" % (bad[0] + 1, bad[1]))
        return 1
    print("re-run the check to regenerate this %s case (seeded, deterministic)" % case.get("mode"))
    return 1
