"""./check CNN [--tier quick|thorough] [--replay file]"""
import argparse
import importlib
import json
import os
import sys
import traceback

from . import core
from .tlc import TLCError


def main(argv=None):
    ap = argparse.ArgumentParser()
    ap.add_argument("pid")
    ap.add_argument("--tier", default=os.environ.get("VERIF_TIER", "quick"),
                    choices=["quick", "thorough"])
    ap.add_argument("--replay")
    a = ap.parse_args(argv)
    pid = a.pid.upper()
    seed = int(os.environ.get("VERIF_SEED", "20261001"))
    try:
        core.use_repo()
        mod = importlib.import_module("checks.%s" % pid.lower())
        if a.replay:
            with open(a.replay) as f:
                rec = json.load(f)
            if isinstance(rec.get("case"), dict) and rec["case"].get("mode") in ("mc-system", "mc-system-invariant", "session"):
                from checks import system_common
                return system_common.replay(rec)
            return mod.replay(rec)
        ctx = core.Ctx(pid, a.tier, seed)
        mod.run(ctx)
        return ctx.finish()
    except (TLCError, core.MachineryError) as e:
        print("MACHINERY-FAILURE %s: %s" % (pid, e))
        return 2
    except Exception:
        traceback.print_exc()
        print("MACHINERY-FAILURE %s: unexpected exception in the harness" % pid)
        return 2


if __name__ == "__main__":
    sys.exit(main())
