"""C15 — split timing: chart timing is used all-or-nothing under one rule.

(M)   MC_TimingSource "full": the whole space kind x version x chart x 3^11 chart-property states (7.4 M
      configurations, thorough; 3^7 slice in quick): the selection rule is symmetric in the eleven properties
      and stable under edits that do not change "any non-empty".  "quot": property patterns x OFFSET /
      DISPLAYBPM states on either side x BPMS sizes x ignore_specified: no field ever comes from the source
      that was not chosen; offset defaults to zero.
(S2C) every configuration of the quotient model is built as real objects with distinct sentinel values on
      the two sides; TimingData's five fields and displaybpm's class/values are compared with TLC's.
(C2S) random configurations over the full space (all 3^11 property states sampled) with DISPLAYBPM / BPMS
      values random within each syntactic class (integers, decimals, exponent forms, blanks, three parts,
      non-numeric); validated record by record by TLC.
"""
import json
import random
from decimal import Decimal

from harness import tlc, core, trace

DIRS = ["timingsource"]
PROPS = ["BPMS", "STOPS", "DELAYS", "TIMESIGNATURES", "TICKCOUNTS", "COMBOS", "WARPS", "SPEEDS", "SCROLLS", "FAKES", "LABELS"]
VER_TEXT = {1: None, 2: "", 69: "0.69", 70: "0.7", 7000: "0.70", 83: "0.83", 100: "1.0"}
S_VAL = {"BPMS": ["0.000=100.000", "0.000=100.000,4.000=150.000", "0.000=100.000,4.000=100.000", "0.000=100.000,4.000=180.000,4.000=150.000"], "STOPS": "1.000=0.100", "DELAYS": "2.000=0.200", "WARPS": "3.000=0.300"}
C_VAL = {"BPMS": ["0.000=200.000", "0.000=200.000,4.000=250.000,8.000=300.000", "0.000=200.000,4.000=200.000,8.000=200.00",
                 "0.000=200.000,8.000=390.000,8.004=300.000,8.000=250.000"], "STOPS": "1.000=0.500", "DELAYS": "2.000=0.600", "WARPS": "3.000=0.700",
         "TIMESIGNATURES": "0.000=3=4", "TICKCOUNTS": "0.000=2", "COMBOS": "0.000=2", "SPEEDS": "0.000=2.000=0.000=0", "SCROLLS": "0.000=2.000",
         "FAKES": "1.000=1.000", "LABELS": "0.000=x"}
OFF = {"s": "0.111", "c": "0.999"}


def bidx(cfg, side):
    """which BPMS text a side carries: one change, several, or several with EQUAL values (cfg["eqb"])"""
    if cfg["nb"][side] == 1:
        return 0
    if cfg.get("dupb"):
        return 3            # several changes, two or three of them on ONE tick: the displayed range is still the min / max of all values
    return 2 if cfg.get("eqb") else 1


def mc_cfg(mode, versions, patterns, offs, dbs, dbc, invs, emit, kinds=("sm", "ssc"), charts=("none", "sm", "ssc")):
    q = lambda l: "{" + ", ".join('"%s"' % x for x in l) + "}"      # noqa
    return ("SPECIFICATION Spec\nCONSTANTS\n Mode = \"%s\"\n Versions = {%s}\n Patterns = {%s}\n OffStates = %s\n DbS = %s\n DbC = %s\n DoEmit = %s\n FullKinds = %s\n FullCharts = %s\n%sINVARIANT Emit\n" % (
        mode, ",".join(map(str, versions)), ",".join(map(str, patterns)), q(offs), q(dbs), q(dbc), "TRUE" if emit else "FALSE", q(kinds), q(charts),
        "".join("INVARIANT %s\n" % i for i in invs)))


def db_text(rng, cls, side):
    base = 111 if side == "s" else 222
    if cls == "absent":
        return None, None
    if cls == "empty":
        return "", None
    if cls == "star":
        return "*", None
    if rng is None:
        one = "%d.5" % base
        two = "%d.5:%d" % (base, base + 3)
    else:
        fmt = rng.choice(["%d", "%d.000", "%d.25", " %d ", "%de0", "0%d.50"])
        one = fmt % base
        two = (fmt % base) + ":" + (rng.choice(["%d", "%d.75", " %d"]) % (base + rng.randint(1, 50)))
        if rng.random() < 0.25:
            two = (fmt % base) + ":" + rng.choice(["%d", "%d.000", " %d"]) % base         # equal ends: still a range
        q = rng.random()
        if q < 0.12:
            two = rng.choice(["0", "0.000", "0.0"]) + ":" + (fmt % base)                 # a range with a ZERO end is still a range
        elif q < 0.2:
            two = (fmt % base) + ":" + rng.choice(["0", "0.000"])
        elif q < 0.26:
            one = rng.choice(["0", "0.000"])                                             # ... and a static zero a static value
    if cls == "one":
        return one, [Decimal(one.strip())]
    if cls == "two":
        a, b = two.split(":")
        return two, [Decimal(a.strip()), Decimal(b.strip())]
    if cls == "three":
        return "1:2:3", None
    if cls == "junk":
        return ("abc" if rng is None else rng.choice(["abc", "1 2", "12e", "--5", "1,5", "NaNx", "0x10"])), None
    # neither a number, nor two numbers, nor '*': trailing / leading / doubled colons included
    return ("a:b" if rng is None else rng.choice(["a:b", "150:", ":150", "*:", "150::", "150:abc", "*:*", ":", "abc:150"])), None


def build(cfg, rng=None):
    from simfile.sm import SMSimfile, SMChart
    from simfile.ssc import SSCSimfile, SSCChart
    sf = SMSimfile.blank() if cfg["kind"] == "sm" else SSCSimfile.blank()
    vt = VER_TEXT[cfg["ver"]]
    if cfg["kind"] == "ssc":
        if vt is None:
            sf.pop("VERSION", None)
        else:
            sf["VERSION"] = vt
    elif vt is not None and vt != "":
        sf["VERSION"] = vt          # an SM simfile carrying a VERSION key changes nothing
    sf["BPMS"] = S_VAL["BPMS"][bidx(cfg, "s")]
    sf["STOPS"], sf["DELAYS"], sf["WARPS"] = S_VAL["STOPS"], S_VAL["DELAYS"], S_VAL["WARPS"]
    if cfg.get("replica"):
        # the chart REPEATS the song's timing: every one of the eleven properties is string-equal on the two
        # sides (absent with absent); only OFFSET and DISPLAYBPM tell the sides apart
        for p, stt in zip(PROPS, cfg["tp"]):
            if stt == "absent":
                sf.pop(p, None)
            elif stt == "empty":
                sf[p] = ""
            else:
                sf[p] = C_VAL[p][bidx(cfg, "c")] if p == "BPMS" else C_VAL[p]
    exp = {"s": {}, "c": {}}
    for side, obj in (("s", sf),):
        st = cfg["off"][side]
        if st == "absent":
            obj.pop("OFFSET", None)
        else:
            obj["OFFSET"] = "" if st == "empty" else OFF[side]
        t, vals = db_text(rng, cfg["db"][side], side)
        if t is None:
            obj.pop("DISPLAYBPM", None)
        else:
            obj["DISPLAYBPM"] = t
        exp[side]["db"] = vals
    chart = None
    if cfg["chart"] == "sm":
        chart = SMChart.blank()
    elif cfg["chart"] == "ssc":
        chart = SSCChart.blank()
        for p, stt in zip(PROPS, cfg["tp"]):
            if stt == "absent":
                chart.pop(p, None)
            elif stt == "empty":
                chart[p] = ""
            elif cfg.get("ws") == p and p not in ("BPMS", "STOPS", "DELAYS", "WARPS"):
                chart[p] = {"TIMESIGNATURES": " ", "TICKCOUNTS": "\n", "COMBOS": "\t", "SPEEDS": " \r\n", "SCROLLS": "\n\n", "FAKES": "  ", "LABELS": "\n"}[p]
                # (a value made of blanks only is still a non-empty value: the chart is the source)
            else:
                chart[p] = C_VAL[p][bidx(cfg, "c")] if p == "BPMS" else C_VAL[p]
        st = cfg["off"]["c"]
        if st == "absent":
            chart.pop("OFFSET", None)
        else:
            chart["OFFSET"] = "" if st == "empty" else OFF["c"]
        t, vals = db_text(rng, cfg["db"]["c"], "c")
        if t is None:
            chart.pop("DISPLAYBPM", None)
        else:
            chart["DISPLAYBPM"] = t
        exp["c"]["db"] = vals
        if rng is not None and rng.random() < 0.4:
            # chart properties that are NOT among the eleven never make the chart the source, whatever they hold
            for k, v in (("ATTACKS", "TIME=1.000:LEN=2.000:MODS=drunk"), ("CREDIT", "someone"), ("CHARTSTYLE", "Pad"),
                         ("RADARVALUES", "0.5,0.5,0.5,0.5,0.5"), ("MUSIC", "other.ogg"), ("XTIMING", "0=1")):
                if rng.random() < 0.5:
                    chart[k] = v
        if rng is None or rng.random() < 0.6:
            chart.move_to_end("NOTES")          # (otherwise the timing properties FOLLOW the note data: order is no part of the rule)
    return sf, chart, exp


def observe(rid, cfg, rng=None):
    sf, chart, exp = build(cfg, rng)
    return measure(rid, cfg, sf, chart, exp, rng)


def edit_chart(chart, cfg, rng):
    """move the SAME chart object to another pattern of timing properties through the mapping's own methods
    (item assignment, del, pop, update, setdefault, clear + update); -> the new configuration"""
    new_tp = [rng.choice(["absent", "empty", "nonempty"]) if rng.random() < 0.5 else t for t in cfg["tp"]]
    if rng.random() < 0.4:
        new_tp = [rng.choice(["absent", "empty"]) for _ in PROPS]          # the last non-empty one goes
    val = lambda p: (C_VAL[p][bidx(cfg, "c")] if p == "BPMS" else C_VAL[p])      # noqa
    only = rng.choice([None, None, "pop", "popitem", "clear"])
    if only:
        # removals only, all through ONE method that bypasses item assignment / deletion
        allne = rng.random() < 0.6
        new_tp = ["absent" if (t == "nonempty" and (allne or rng.random() < 0.5)) or (t == "empty" and rng.random() < 0.3) else t for t in cfg["tp"]]
        if only == "clear":
            rest = [(k, v) for k, v in chart.items()]
            chart.clear()
            new_tp = ["absent"] * len(PROPS)
            if rng.random() < 0.5:
                return dict(cfg, tp=new_tp, off=dict(cfg["off"], c="absent"), db=dict(cfg["db"], c="absent"))
            # (put the non-timing items back; OFFSET / DISPLAYBPM come back with them)
            for k, v in rest:
                if k not in PROPS:
                    chart[k] = v
            return dict(cfg, tp=new_tp)
        for p, old, t in zip(PROPS, cfg["tp"], new_tp):
            if t != old:
                if only == "pop":
                    chart.pop(p)
                else:
                    chart.move_to_end(p)
                    chart.popitem()
        if "NOTES" in chart and rng.random() < 0.6:
            chart.move_to_end("NOTES")
        return dict(cfg, tp=new_tp)
    if rng.random() < 0.15:
        keep = [(k, v) for k, v in chart.items() if k not in PROPS]
        chart.clear()
        chart.update([(k, v) for k, v in keep if k != "NOTES"])
        chart.update({p: ("" if t == "empty" else val(p)) for p, t in zip(PROPS, new_tp) if t != "absent"})
        chart.update([(k, v) for k, v in keep if k == "NOTES"])
    else:
        for p, old, t in zip(PROPS, cfg["tp"], new_tp):
            if t == old:
                continue
            if t == "absent":
                how = rng.randrange(3)
                if how == 0:
                    del chart[p]
                elif how == 1:
                    chart.pop(p)
                else:
                    chart.move_to_end(p)
                    chart.popitem()
            else:
                v = "" if t == "empty" else val(p)
                how = rng.randrange(3)
                if how == 0 or (how == 2 and p in chart):
                    chart[p] = v
                elif how == 1:
                    chart.update({p: v})
                else:
                    chart.setdefault(p, v)
        if "NOTES" in chart and rng.random() < 0.6:
            chart.move_to_end("NOTES")
    return dict(cfg, tp=new_tp)


def observe_history(rid, cfg, rng):
    """the same simfile / chart OBJECTS observed, edited through the mapping interface, and observed again"""
    sf, chart, exp = build(cfg, rng)
    out = [measure(rid, cfg, sf, chart, exp, rng)]
    for step in range(rng.randint(1, 3)):
        # a TimingData built BEFORE the next edit and read only AFTER it: it describes the objects as they were
        # when it was built (all five fields are taken at construction)
        pre = None
        if rng.random() < 0.5:
            from simfile.timing import TimingData
            try:
                pre = (TimingData(sf, chart) if chart is not None else TimingData(sf), cfg)
                if rng.random() < 0.5:
                    pre[0].offset          # (one field touched early, the others late)
            except Exception:  # noqa
                pre = None
        if chart is not None and cfg["chart"] == "ssc" and rng.random() < 0.8:
            cfg = edit_chart(chart, cfg, rng)
        elif cfg["kind"] == "ssc":
            ver = rng.choice(list(VER_TEXT))
            if VER_TEXT[ver] is None:
                sf.pop("VERSION", None)
            else:
                sf["VERSION"] = VER_TEXT[ver]
            cfg = dict(cfg, ver=ver)
        else:
            break
        if pre is not None:
            out.append(measure("%s.%d.built-before-the-edit" % (rid, step + 1), pre[1], sf, chart, exp, rng, td=pre[0]))
        out.append(measure("%s.%d" % (rid, step + 1), cfg, sf, chart, exp, rng))
    return out


def measure(rid, cfg, sf, chart, exp, rng=None, td=None):
    from simfile.timing import TimingData, BeatValues
    from simfile.timing.displaybpm import displaybpm, StaticDisplayBPM, RangeDisplayBPM, RandomDisplayBPM
    rec = {"id": rid, "cfg": cfg, "st": "ok", "td": {}, "disp": [], "nodisp": False}
    prebuilt = td is not None
    try:
        if td is None:
            td = TimingData(sf, chart) if chart is not None else TimingData(sf)
    except Exception as e:  # noqa
        rec["st"] = type(e).__name__
        return rec

    def side_of(name, bv):
        key = name.upper()
        s_text = S_VAL[key][bidx(cfg, "s")] if key == "BPMS" else S_VAL[key]
        c_text = C_VAL[key][bidx(cfg, "c")] if key == "BPMS" else C_VAL[key]
        if cfg.get("replica"):
            return "both" if list(bv) == list(BeatValues.from_str(c_text)) else "other"
        if list(bv) == list(BeatValues.from_str(s_text)):
            return "s"
        if list(bv) == list(BeatValues.from_str(c_text)):
            return "c"
        return "emptylist" if len(bv) == 0 else "other"
    for n in ("bpms", "stops", "delays", "warps"):
        rec["td"][n] = side_of(n, getattr(td, n))
    rec["td"]["offset"] = "s" if td.offset == Decimal(OFF["s"]) else ("c" if td.offset == Decimal(OFF["c"]) else ("zero" if td.offset == 0 else "other"))
    if prebuilt:
        rec["nodisp"] = True          # (displaybpm reads the objects as they are now)
        return rec
    src_is_chart = (cfg["kind"] == "ssc" and cfg["chart"] == "ssc")
    # the displayed-BPM clause is claimed when the source that will be used has a non-empty BPMS
    if cfg["chart"] == "ssc" and cfg["tp"][0] != "nonempty" and rec["td"]["bpms"] != "s":
        rec["nodisp"] = True
        return rec
    try:
        kw = {}
        if cfg["ignore"] or (rng is not None and rng.random() < 0.5):
            kw["ignore_specified"] = cfg["ignore"]
        if chart is not None and cfg["chart"] == "ssc":
            d = displaybpm(sf, chart, **kw)
        elif chart is None:
            d = displaybpm(sf, **kw)
        else:
            rec["nodisp"] = True          # displaybpm takes an SSC chart only
            return rec
    except Exception as e:  # noqa
        rec["st"] = "displaybpm:" + type(e).__name__
        return rec

    def where(vals):
        for side in ("s", "c"):
            if exp[side].get("db") is not None and [Decimal(x) for x in vals] == exp[side]["db"]:
                return [side, "displaybpm"]
            bl = [e.value for e in BeatValues.from_str((S_VAL if side == "s" and not cfg.get("replica") else C_VAL)["BPMS"][bidx(cfg, "c" if cfg.get("replica") else side)])]
            want = [bl[0]] if len(bl) == 1 else [min(bl), max(bl)]
            if [Decimal(x) for x in vals] == want:
                return ["both" if cfg.get("replica") else side, "bpms"]
        return ["?", "?"]
    if isinstance(d, RandomDisplayBPM):
        rec["disp"] = ["random"]
    elif isinstance(d, StaticDisplayBPM):
        rec["disp"] = ["static"] + where([d.value])
    elif isinstance(d, RangeDisplayBPM):
        rec["disp"] = ["range"] + where([d.min, d.max])
    else:
        rec["disp"] = ["?"]
    return rec


def s2c_job(job):
    rid, rec = job
    cfg = rec["cfg"]
    cfg = dict(cfg, tp=list(cfg["tp"]))
    r = observe(rid, cfg)
    diff = None
    if r["st"] != "ok":
        diff = "raised " + r["st"]
    else:
        for n, want in rec["td"].items():
            if r["td"].get(n) != want[0]:
                diff = "TimingData.%s comes from %r, TLC expects %r" % (n, r["td"].get(n), want[0])
        if not diff and not r["nodisp"] and r["disp"] != rec["disp"]:
            diff = "displaybpm is %s, TLC expects %s" % (r["disp"], rec["disp"])
    return r, diff


def run(ctx):
    quick = ctx.quick
    versions = [1, 2, 69, 70, 7000, 83, 100]
    # ---- full space: symmetry ----------------------------------------------------------------
    res = tlc.run(module="MC_TimingSource", cfg=mc_cfg("full", [69, 70] if quick else versions, [1], ["absent"], ["absent"], ["absent"],
                                                        ["InvSymmetry", "InvEditStable"], False,
                                                        kinds=("ssc",) if quick else ("sm", "ssc"), charts=("ssc",) if quick else ("none", "sm", "ssc")),
                  dirs=DIRS, workers=16, timeout=6000, heap="10g")
    if res.invariant_violated:
        ctx.violation("C15:model:" + res.invariant_violated, "the selection rule violates %s:\n%s" % (res.invariant_violated, (res.error_text or "")[:1500]), {"mode": "model"})
    else:
        tlc.require_ok(res, "MC_TimingSource full")
        ctx.add_tlc("MC_TimingSource/full", res)
    # ---- quotient: never mixed + emission -------------------------------------------------------
    pats = [1, 2, 3, 4, 6, 9] if quick else list(range(1, 10))
    offs = ["absent", "empty", "value"]
    dbs = ["absent", "one", "two"] if quick else ["absent", "empty", "one", "two", "star", "junk"]
    dbc = ["absent", "empty", "one", "star"] if quick else ["absent", "empty", "one", "two", "star", "three", "junkcolon"]
    res = tlc.run(module="MC_TimingSource", cfg=mc_cfg("quot", [1, 2, 69, 70, 7000, 100] if quick else versions, pats, offs, dbs, dbc,
                                                        ["InvSymmetry", "InvNeverMixed", "InvOffsetDefault"], True),
                  dirs=DIRS, workers=16, timeout=6000, heap="10g")
    if res.invariant_violated:
        ctx.violation("C15:model:" + res.invariant_violated, "the specification mixes sources (%s):\n%s" % (res.invariant_violated, (res.error_text or "")[:1500]), {"mode": "model"})
    else:
        tlc.require_ok(res, "MC_TimingSource quot")
        ctx.add_tlc("MC_TimingSource/quot", res)
        cases = res.printed
        rng = random.Random(ctx.seed)
        if quick and len(cases) > 60000:
            cases = rng.sample(cases, 60000)
        out = core.pmap(s2c_job, list(enumerate(cases)), chunk=500)
        for (r, diff), rec in zip(out, cases):
            ctx.traces += 1
            ctx.evaluations += 1
            if rec["src"] == "c":
                ctx.nontrivial_add(json.dumps(rec["cfg"], sort_keys=True))
            if diff:
                ctx.violation("C15:s2c", "%s; configuration %s" % (diff, json.dumps(rec["cfg"])[:500]), {"mode": "cfg", "cfg": rec["cfg"]})
        ctx.notes["s2c_configurations_replayed"] = len(cases)
        ctx.sample({"s2c": {"cfg": cases[len(cases) // 2]["cfg"], "tlc_source": cases[len(cases) // 2]["src"], "tlc_display": cases[len(cases) // 2]["disp"]}})
    # ---- C2S: random over the full space, values random within syntactic classes -------------------
    rng = random.Random(ctx.seed * 31 + 7)
    recs = []
    n = 4000 if quick else 200000
    for i in range(n):
        cfg = {"kind": rng.choice(["sm", "ssc", "ssc", "ssc"]), "ver": rng.choice(versions), "chart": rng.choice(["none", "sm", "ssc", "ssc", "ssc"]),
               "tp": [rng.choice(["absent", "absent", "empty", "empty", "nonempty"]) if rng.random() < 0.6 else rng.choice(["absent", "empty"]) for _ in PROPS],
               "off": {"s": rng.choice(offs), "c": rng.choice(offs)},
               "db": {"s": rng.choice(["absent", "empty", "one", "two", "star", "three", "junk", "junkcolon"]),
                      "c": rng.choice(["absent", "empty", "one", "two", "star", "three", "junk", "junkcolon"])},
               "nb": {"s": rng.choice([1, 2]), "c": rng.choice([1, 3])}, "ignore": rng.random() < 0.3, "replica": False,
               "eqb": rng.random() < 0.25, "dupb": rng.random() < 0.15,
               "ws": rng.choice(["TIMESIGNATURES", "TICKCOUNTS", "COMBOS", "SPEEDS", "SCROLLS", "FAKES", "LABELS"]) if rng.random() < 0.3 else ""}
        how = rng.random()
        if how < 0.15 and cfg["chart"] == "ssc":
            # the chart repeats the song's timing (lists non-empty on both sides), OFFSET / DISPLAYBPM differ
            cfg["replica"] = True
            cfg["nb"]["s"] = cfg["nb"]["c"]
            cfg["tp"] = ["nonempty" if j in (0, 1, 2, 6) else cfg["tp"][j] for j in range(len(PROPS))]
            recs.append(observe(i, cfg, rng))
        elif how < 0.45:
            recs.extend(observe_history(i, cfg, rng))
        else:
            recs.append(observe(i, cfg, rng))
    # whole sessions (System.tla): the source rule composed with the parsers, the timeline and the chart's notes
    from . import system_common as sysc
    sessions, sverdict = sysc.run_sessions(ctx, 150 if quick else 3000, ctx.seed + 15, timing_bias=True)
    sysc.judge(ctx, "C15", sessions, sverdict, {"timenotes"}, "timing a chart's notes inside a session (which object supplies the timing data)")
    sysc.mc_system(ctx, "C15", (sysc.MC_RUNS["C15"][0] if ctx.quick else sysc.MC_RUNS["C15"][1]), ops={"timenotes"})      # MC_System, focus "timing"
    verdict = trace.validate(ctx, "Trace_TimingSource", DIRS, recs)
    for r in recs:
        cl = verdict[r["id"]]["clause"]
        ctx.traces += 1
        ctx.evaluations += 1
        ctx.nontrivial_add(json.dumps(r["cfg"], sort_keys=True))
        if cl:
            hist = " [observation %s: the SAME objects were observed before and then edited to this configuration]" % r["id"] if isinstance(r["id"], str) else ""
            ctx.violation("C15:" + cl + (":after-edit" if hist else ""), "recorded configuration rejected (%s): TimingData %s, displaybpm %s, status %s; configuration %s%s" % (
                cl, r["td"], r["disp"], r["st"], json.dumps(r["cfg"])[:500], hist), {"mode": "cfg", "cfg": r["cfg"]})
    ctx.notes["c2s_configurations"] = len(recs)
    ctx.sample({"c2s": {"cfg": recs[0]["cfg"], "timingdata_from": recs[0]["td"], "displaybpm": recs[0]["disp"]}})
    ctx.exhaustive = True
    ctx.rule = ("M: the full 2 x 7 x 3 x 3^11 space in thorough (a 3-version slice in quick); S2C: every configuration of the quotient model "
                "(property patterns x offset / displaybpm states x BPMS sizes x ignore); C2S: random configurations over the full space; "
                "non-trivial = the chart is the source; distinct = distinct configuration")
    ctx.assumptions += [
        "the two sides carry distinct sentinel values, so a field taken from the wrong side is visible",
        "DISPLAYBPM values are strings (a key-only DISPLAYBPM is outside the stated states absent / empty / value); 'NaN'/'Infinity' are not generated",
        "the displayed-BPM clause is claimed only when the chosen source has a non-empty BPMS",
    ]


def replay(rec):
    print(rec.get("what"))
    case = rec["case"]
    if case.get("mode") == "cfg":
        cfg = dict(case["cfg"], tp=list(case["cfg"]["tp"]))
        print(json.dumps(observe(0, cfg)))
    return 1
