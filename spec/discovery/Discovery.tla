----------------------------- MODULE Discovery ------------------------------
(* simfile.dir (SimfileDirectory, SimfilePack), simfile.opendir / openpack and   *)
(* simfile.assets.Assets over a listing-level view of the filesystem: names are     *)
(* texts (Seq of code points); a directory is the SEQUENCE its listdir returned      *)
(* (the order is an input: it is logged from the very call the library made).         *)
EXTENDS Text

S_(s) == s
X_SSC == <<46, 115, 115, 99>>
X_SM == <<46, 115, 109>>
ImageExts == <<<<46, 112, 110, 103>>, <<46, 106, 112, 103>>, <<46, 106, 112, 101, 103>>, <<46, 103, 105, 102>>, <<46, 98, 109, 112>>>>
AudioExts == {<<46, 109, 112, 51>>, <<46, 111, 103, 97>>, <<46, 111, 103, 103>>, <<46, 119, 97, 118>>}
NoneName == <<-1>>

IsSSC(n) == EndsWith(Lower(n), X_SSC)
IsSM(n) == ~IsSSC(n) /\ EndsWith(Lower(n), X_SM)
IsSimfile(n) == IsSSC(n) \/ IsSM(n)

(* SimfileDirectory over a listing *)
FirstIdx(listing, P(_)) == LET S == {i \in DOMAIN listing : P(listing[i])} IN IF S = {} THEN 0 ELSE CHOOSE i \in S : \A j \in S : i <= j
Count(listing, P(_)) == Cardinality({i \in DOMAIN listing : P(listing[i])})
DirView(listing, ignoreDup) ==
  LET sm == FirstIdx(listing, IsSM)  ssc == FirstIdx(listing, IsSSC)
      dup == Count(listing, IsSM) > 1 \/ Count(listing, IsSSC) > 1 IN
  IF dup /\ ~ignoreDup THEN [st |-> "DuplicateSimfileError", sm |-> NoneName, ssc |-> NoneName]
  ELSE [st |-> "ok", sm |-> IF sm = 0 THEN NoneName ELSE listing[sm], ssc |-> IF ssc = 0 THEN NoneName ELSE listing[ssc]]
(* which file open() reads: the SSC if present, else the SM, else FileNotFoundError *)
OpenTarget(v) == IF v.ssc # NoneName THEN v.ssc ELSE v.sm

(* SimfilePack over the pack's listing: entries [name, isdir, sub (listing of that directory)] *)
PackDirs(entries) == SelectSeq(entries, LAMBDA e : e.isdir /\ \E i \in DOMAIN e.sub : IsSimfile(e.sub[i]))
PackView(entries) == LET ds == PackDirs(entries) IN [i \in DOMAIN ds |-> ds[i].name]

-----------------------------------------------------------------------------
(* Assets *)
LastDot(n) == LET ps == Positions(n, 46) IN IF ps = <<>> THEN 0 ELSE ps[Len(ps)]
(* os.path.splitext: the extension starts at the last dot unless only dots precede it *)
Stem(n) == LET d == LastDot(n) IN
           IF d = 0 \/ \A i \in 1..(d - 1) : n[i] = 46 THEN n ELSE Sub(n, 1, d - 1)
P_banner == <<98, 97, 110, 110, 101, 114>>  P_bn == <<98, 110>>
P_background == <<98, 97, 99, 107, 103, 114, 111, 117, 110, 100>>  P_bg == <<98, 103>>
P_cdtitle == <<99, 100, 116, 105, 116, 108, 101>>
P_jk == <<106, 107, 95>>  P_jacket == <<106, 97, 99, 107, 101, 116>>  P_albumart == <<97, 108, 98, 117, 109, 97, 114, 116>>
P_cd == <<45, 99, 100>>
Matches(kind, n) ==
  LET s == Lower(Stem(n)) IN
  CASE kind = "BANNER" -> Contains(s, P_banner) \/ EndsWith(s, P_bn)
    [] kind = "BACKGROUND" -> Contains(s, P_background) \/ EndsWith(s, P_bg)
    [] kind = "CDTITLE" -> Contains(s, P_cdtitle)
    [] kind = "JACKET" -> StartsWith(s, P_jk) \/ Contains(s, P_jacket) \/ Contains(s, P_albumart)
    [] kind = "CDIMAGE" -> EndsWith(s, P_cd)
    [] kind = "MUSIC" -> \E x \in AudioExts : EndsWith(Lower(n), x)

(* the set of acceptable answers (as <<subdir or NoneName, entry name>>), or {<<NoneName, NoneName>>} for None *)
(* value: [state |-> "absent" | "empty" | "value", dir |-> NoneName or a sub-directory name, file |-> name]    *)
(* subs: sequence of [name, listing] for the sub-directories of the simfile directory                             *)
SubListing(subs, d) == LET S == {i \in DOMAIN subs : subs[i].name = d} IN IF S = {} THEN <<NoneName>> ELSE subs[CHOOSE i \in S : TRUE].listing
AssetAnswers(kind, listing, subs, value) ==
  LET named == IF value.state # "value" THEN {}
               ELSE IF value.dir = NoneName THEN {<<NoneName, listing[i]>> : i \in {j \in DOMAIN listing : Lower(listing[j]) = Lower(value.file)}}
               ELSE LET sl == SubListing(subs, value.dir) IN
                    IF sl = <<NoneName>> THEN {}
                    ELSE {<<value.dir, sl[i]>> : i \in {j \in DOMAIN sl : Lower(sl[j]) = Lower(value.file)}}
      pattern == {<<NoneName, listing[i]>> : i \in {j \in DOMAIN listing : Matches(kind, listing[j])}}
  IN IF named # {} THEN named ELSE IF pattern # {} THEN pattern ELSE {<<NoneName, NoneName>>}

(* pack banner: <<"in", name>> | <<"beside", name>> | <<"none", NoneName>> *)
ImageRank(n) == LET S == {k \in DOMAIN ImageExts : EndsWith(Lower(n), ImageExts[k])} IN IF S = {} THEN 0 ELSE CHOOSE k \in S : \A j \in S : k <= j
BannerAnswers(listing, siblings, packname) ==
  LET ranks == {ImageRank(listing[i]) : i \in DOMAIN listing} \ {0} IN
  IF ranks # {} THEN LET best == CHOOSE r \in ranks : \A q \in ranks : r <= q IN
                     {<<"in", listing[i]>> : i \in {j \in DOMAIN listing : ImageRank(listing[j]) = best}}
  ELSE LET have == {k \in DOMAIN ImageExts : \E i \in DOMAIN siblings : siblings[i] = packname \o ImageExts[k]} IN
       IF have = {} THEN {<<"none", NoneName>>}
       ELSE {<<"beside", packname \o ImageExts[CHOOSE k \in have : \A j \in have : k <= j]>>}
=============================================================================
