---------------------------- MODULE TimingSource ----------------------------
(* Split timing: which object (simfile or SSC chart) supplies the timing data   *)
(* and the displayed BPM.                                                        *)
(*  c.kind "sm" | "ssc";  c.ver: the VERSION value as hundredths (70 = "0.7"),    *)
(*  1 = absent, 2 = empty (cfg files reject negatives);  c.chart "none" | "sm" | "ssc";                          *)
(*  c.tp: [1..11 -> "absent" | "empty" | "nonempty"] the chart's timing properties  *)
(*  (BPMS STOPS DELAYS TIMESIGNATURES TICKCOUNTS COMBOS WARPS SPEEDS SCROLLS FAKES   *)
(*  LABELS);  c.off, c.db: [s, c] -> state of OFFSET / DISPLAYBPM on either side;     *)
(*  c.nb: [s, c] -> number of BPM changes in that side's BPMS; c.ignore.              *)
EXTENDS Integers, Sequences, FiniteSets

NProps == 11
UsesChart(c) == /\ c.kind = "ssc" /\ c.chart = "ssc" /\ c.ver >= 70
                /\ \E p \in 1..NProps : c.tp[p] = "nonempty"
Source(c) == IF UsesChart(c) THEN "c" ELSE "s"

(* what TimingData reads: every one of the five fields from the chosen source, never from the other *)
PropIdx(name) == CASE name = "bpms" -> 1 [] name = "stops" -> 2 [] name = "delays" -> 3 [] name = "warps" -> 7
FieldOf(c, name) ==
  LET src == Source(c) IN
  IF name = "offset" THEN (IF c.off[src] = "value" THEN <<src, "offset">> ELSE <<"zero">>)
  ELSE IF src = "s" THEN <<"s", name>>                                          \* the simfile's own value (possibly empty)
  ELSE IF c.tp[PropIdx(name)] = "nonempty" THEN <<"c", name>> ELSE <<"emptylist">>
TimingDataOf(c) == [n \in {"bpms", "stops", "delays", "warps", "offset"} |-> FieldOf(c, n)]

(* displayed BPM: the source's DISPLAYBPM by syntactic class, else its BPMS *)
DbStates == {"absent", "empty", "one", "two", "star", "three", "junk", "junkcolon"}
DisplayOf(c) ==
  LET src == Source(c)  d == c.db[src] IN
  IF ~c.ignore /\ d = "star" THEN <<"random">>
  ELSE IF ~c.ignore /\ d = "one" THEN <<"static", src, "displaybpm">>
  ELSE IF ~c.ignore /\ d = "two" THEN <<"range", src, "displaybpm">>
  ELSE IF c.nb[src] = 1 THEN <<"static", src, "bpms">> ELSE <<"range", src, "bpms">>

(* the rule is symmetric in the eleven properties: only "is any of them non-empty" matters *)
AnyNonEmpty(tp) == \E p \in 1..NProps : tp[p] = "nonempty"
=============================================================================
