------------------------------- MODULE Object -------------------------------
(***************************************************************************)
(* Simfile and chart objects as ordered key/value maps, and the two views  *)
(* the library offers on them: dictionary keys and known-property          *)
(* attributes (with legacy aliases).  One action per public operation; the *)
(* action is given in functional form (Apply) so that the same definition  *)
(* drives the bounded model (MC_Object), is replayed into the code (S2C)   *)
(* and validates recorded executions (Trace_Object, C2S).                  *)
(*                                                                         *)
(* Optional values are sequences of length 0 (Python None) or 1.           *)
(***************************************************************************)
EXTENDS Sequences, Naturals, FiniteSets, TLC

Kinds == {"sm", "ssc", "sscchart", "smchart"}

SMChartFields == <<"STEPSTYPE", "DESCRIPTION", "DIFFICULTY", "METER", "RADARVALUES", "NOTES">>
SMChartFieldSet == {SMChartFields[i] : i \in 1..6}

(* Known properties, transcribed from docs/source/known-properties.rst.   *)
(* <<standard key, alias or "">>; the attribute name is the lower-cased    *)
(* standard key.                                                            *)
BaseSimfileProps ==
  { <<"TITLE","">>, <<"SUBTITLE","">>, <<"ARTIST","">>, <<"TITLETRANSLIT","">>,
    <<"SUBTITLETRANSLIT","">>, <<"ARTISTTRANSLIT","">>, <<"GENRE","">>, <<"CREDIT","">>,
    <<"BANNER","">>, <<"BACKGROUND","">>, <<"LYRICSPATH","">>, <<"CDTITLE","">>,
    <<"MUSIC","">>, <<"OFFSET","">>, <<"BPMS","">>, <<"DELAYS","">>,
    <<"TIMESIGNATURES","">>, <<"TICKCOUNTS","">>, <<"INSTRUMENTTRACK","">>,
    <<"SAMPLESTART","">>, <<"SAMPLELENGTH","">>, <<"DISPLAYBPM","">>, <<"SELECTABLE","">>,
    <<"BGCHANGES","ANIMATIONS">>, <<"FGCHANGES","">>, <<"KEYSOUNDS","">>, <<"ATTACKS","">> }
SSCOnlySimfileProps ==
  { <<"VERSION","">>, <<"ORIGIN","">>, <<"PREVIEWVID","">>, <<"JACKET","">>, <<"CDIMAGE","">>,
    <<"DISCIMAGE","">>, <<"PREVIEW","">>, <<"MUSICLENGTH","">>, <<"LASTSECONDHINT","">>,
    <<"WARPS","">>, <<"LABELS","">>, <<"COMBOS","">>, <<"SPEEDS","">>, <<"SCROLLS","">>,
    <<"FAKES","">> }
BaseChartProps ==
  { <<"STEPSTYPE","">>, <<"DESCRIPTION","">>, <<"DIFFICULTY","">>, <<"METER","">>,
    <<"RADARVALUES","">> }
SSCOnlyChartProps ==
  { <<"CHARTNAME","">>, <<"CHARTSTYLE","">>, <<"CREDIT","">>, <<"MUSIC","">>, <<"BPMS","">>,
    <<"STOPS","">>, <<"DELAYS","">>, <<"TIMESIGNATURES","">>, <<"TICKCOUNTS","">>,
    <<"COMBOS","">>, <<"WARPS","">>, <<"SPEEDS","">>, <<"SCROLLS","">>, <<"FAKES","">>,
    <<"LABELS","">>, <<"ATTACKS","">>, <<"OFFSET","">>, <<"DISPLAYBPM","">> }

KnownProps(kind) ==
  CASE kind = "sm"       -> BaseSimfileProps \cup { <<"STOPS","FREEZES">> }
    [] kind = "ssc"      -> BaseSimfileProps \cup SSCOnlySimfileProps \cup { <<"STOPS","">> }
    [] kind = "smchart"  -> BaseChartProps \cup { <<"NOTES","">> }
    [] kind = "sscchart" -> BaseChartProps \cup SSCOnlyChartProps \cup { <<"NOTES","NOTES2">> }

-----------------------------------------------------------------------------
(* Ordered maps: sequences of [k, v] records with unique keys.            *)
KeySeq(it)  == [i \in DOMAIN it |-> it[i].k]
Keys(it)    == {it[i].k : i \in DOMAIN it}
Has(it, k)  == \E i \in DOMAIN it : it[i].k = k
Idx(it, k)  == CHOOSE i \in DOMAIN it : it[i].k = k
Get(it, k)  == it[Idx(it, k)].v
Put(it, k, v) == IF Has(it, k) THEN [it EXCEPT ![Idx(it, k)].v = v]
                 ELSE Append(it, [k |-> k, v |-> v])
Del(it, k)  == SelectSeq(it, LAMBDA e : e.k # k)
UniqueKeys(it) == \A i, j \in DOMAIN it : it[i].k = it[j].k => i = j

(* Which key does an attribute act on?  The alias exactly when it is      *)
(* present and the standard key is not.                                    *)
Sel(it, name, alias) ==
  IF ~Has(it, name) /\ alias # "" /\ Has(it, alias) THEN alias ELSE name

(* What an attribute must read, stated directly (not through Sel).        *)
AttrView(it, name, alias) ==
  IF Has(it, name) THEN <<Get(it, name)>>
  ELSE IF alias # "" /\ Has(it, alias) THEN <<Get(it, alias)>>
  ELSE <<>>

-----------------------------------------------------------------------------
(* Operations.  op = [op, name, alias, k, v] (unused fields are "").      *)
(* Result = [st, val]: st is "ok" or the exception class; val is a        *)
(* sequence of strings (optional value, key listing, or "true"/"false").  *)
Ok(val)  == [st |-> "ok", val |-> val]
Exc(cls) == [st |-> cls, val |-> <<>>]
Bool(b)  == IF b THEN <<"true">> ELSE <<"false">>

ApplyDict(it, o) ==      \* sm, ssc, sscchart: a plain ordered dictionary + attributes
  LET sel == Sel(it, o.name, o.alias) IN
  CASE o.op = "getattr"  -> [items |-> it, res |-> Ok(IF Has(it, sel) THEN <<Get(it, sel)>> ELSE <<>>)]
    [] o.op = "setattr"  -> [items |-> Put(it, sel, o.v), res |-> Ok(<<>>)]
    [] o.op = "delattr"  -> IF Has(it, sel) THEN [items |-> Del(it, sel), res |-> Ok(<<>>)]
                            ELSE [items |-> it, res |-> Exc("KeyError")]
    [] o.op = "getkey"   -> IF Has(it, o.k) THEN [items |-> it, res |-> Ok(<<Get(it, o.k)>>)]
                            ELSE [items |-> it, res |-> Exc("KeyError")]
    [] o.op = "get"      -> [items |-> it, res |-> Ok(IF Has(it, o.k) THEN <<Get(it, o.k)>> ELSE <<>>)]
    [] o.op = "setkey"   -> [items |-> Put(it, o.k, o.v), res |-> Ok(<<>>)]
    [] o.op = "delkey"   -> IF Has(it, o.k) THEN [items |-> Del(it, o.k), res |-> Ok(<<>>)]
                            ELSE [items |-> it, res |-> Exc("KeyError")]
    [] o.op = "pop"      -> IF Has(it, o.k) THEN [items |-> Del(it, o.k), res |-> Ok(<<Get(it, o.k)>>)]
                            ELSE [items |-> it, res |-> Exc("KeyError")]
    [] o.op = "contains" -> [items |-> it, res |-> Ok(Bool(Has(it, o.k)))]
    [] o.op = "iterate"  -> [items |-> it, res |-> Ok(KeySeq(it))]

ApplySMChart(it, o) ==   \* six fixed fields; nothing can be added or removed
  LET sel == o.name IN   \* no SM chart property has an alias
  CASE o.op = "getattr"  -> [items |-> it, res |-> Ok(IF Has(it, sel) THEN <<Get(it, sel)>> ELSE <<>>)]
    [] o.op = "setattr"  -> [items |-> Put(it, sel, o.v), res |-> Ok(<<>>)]
    [] o.op = "delattr"  -> [items |-> it, res |-> Exc("NotImplementedError")]
    [] o.op = "getkey"   -> IF o.k \in SMChartFieldSet /\ Has(it, o.k)
                            THEN [items |-> it, res |-> Ok(<<Get(it, o.k)>>)]
                            ELSE [items |-> it, res |-> Exc("KeyError")]
    [] o.op = "get"      -> [items |-> it, res |-> Ok(IF Has(it, o.k) THEN <<Get(it, o.k)>> ELSE <<>>)]
    [] o.op = "setkey"   -> IF o.k \in SMChartFieldSet
                            THEN [items |-> Put(it, o.k, o.v), res |-> Ok(<<>>)]
                            ELSE [items |-> it, res |-> Exc("KeyError")]
    [] o.op = "delkey"   -> [items |-> it, res |-> Exc("NotImplementedError")]
    [] o.op = "pop"      -> [items |-> it, res |-> Exc("NotImplementedError")]
    [] o.op = "popitem"  -> [items |-> it, res |-> Exc("NotImplementedError")]
    [] o.op = "update"   -> [items |-> it, res |-> Exc("NotImplementedError")]
    [] o.op = "contains" -> [items |-> it, res |-> Ok(Bool(Has(it, o.k)))]
    [] o.op = "iterate"  -> [items |-> it, res |-> Ok(KeySeq(it))]

Apply(kind, it, o) == IF kind = "smchart" THEN ApplySMChart(it, o) ELSE ApplyDict(it, o)

-----------------------------------------------------------------------------
(* What serialization must show, at MSD-parameter level (the text level is *)
(* the Codec module's business): a sequence of components per parameter.    *)
(* Values here are plain strings without MSD metacharacters.                *)
NotesKey(it) == IF Has(it, "NOTES") THEN "NOTES" ELSE "NOTES2"
HasNotes(it) == Has(it, "NOTES") \/ Has(it, "NOTES2")

SerView(kind, it) ==
  CASE kind \in {"sm", "ssc"} -> [i \in DOMAIN it |-> <<it[i].k, it[i].v>>]
    [] kind = "smchart" ->
         << <<"NOTES">> \o [i \in 1..6 |-> Get(it, SMChartFields[i])] >>
    [] kind = "sscchart" ->
         LET nk   == NotesKey(it)
             rest == SelectSeq(it, LAMBDA e : e.k # nk)
         IN  << <<"NOTEDATA", "">> >>
             \o [i \in DOMAIN rest |-> <<rest[i].k, rest[i].v>>]
             \o << <<nk, Get(it, nk)>> >>

(* An SSC chart is serializable when it has note data (NOTES, else NOTES2); with both    *)
(* present NOTES is the note data and NOTES2 is written like any other property: the     *)
(* serialization still shows exactly the mapping's content.                               *)
Serializable(kind, it) == kind # "sscchart" \/ HasNotes(it)

(* Blank SM chart: the state every SM chart starts from in the model.     *)
BlankSMChart == [i \in 1..6 |-> [k |-> SMChartFields[i], v |-> ""]]

-----------------------------------------------------------------------------
(* The clauses of the property, as predicates on one transition            *)
(* (prev --op/res--> items).                                                *)
Touched(prev, o) ==
  CASE o.op \in {"setattr", "delattr"} -> {Sel(prev, o.name, o.alias)}
    [] o.op \in {"setkey", "delkey", "pop"} -> {o.k}
    [] OTHER -> {}

Restrict(seq, S) == SelectSeq(seq, LAMBDA x : x \in S)

(* every other key keeps its value; insertion order of surviving keys kept; *)
(* a new key, if any, is appended at the end                                 *)
FrameOK(prev, o, it) ==
  /\ \A k \in Keys(prev) \ Touched(prev, o) : Has(it, k) /\ Get(it, k) = Get(prev, k)
  /\ Keys(it) \subseteq Keys(prev) \cup Touched(prev, o)
  /\ Restrict(KeySeq(it), Keys(prev)) = Restrict(KeySeq(prev), Keys(it))
  /\ \A i \in DOMAIN it : it[i].k \notin Keys(prev) => i = Len(it)

(* attribute reads/writes/deletes act on the key the documentation names   *)
AttrOK(prev, o, res, it) ==
  /\ o.op = "getattr" => res = Ok(AttrView(prev, o.name, o.alias))
  /\ o.op = "setattr" /\ res.st = "ok" => AttrView(it, o.name, o.alias) = <<o.v>>
  /\ o.op = "delattr" /\ res.st = "ok" =>
       /\ AttrView(prev, o.name, o.alias) # <<>>
       /\ ~Has(it, Sel(prev, o.name, o.alias))
  /\ o.op = "delattr" /\ AttrView(prev, o.name, o.alias) = <<>> => res.st # "ok" /\ it = prev

SMChartOK(it) == KeySeq(it) = SMChartFields
=============================================================================
