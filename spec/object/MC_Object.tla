----------------------------- MODULE MC_Object -----------------------------
(* Bounded model of the Object machine for one object kind and one known   *)
(* property: breadth-first over every reachable mapping and every          *)
(* operation from it.  prev/op/res are part of the state so that the set   *)
(* of distinct states is the set of distinct transitions; each one is      *)
(* emitted (Emit) for replay into the real code.                           *)
EXTENDS Object, Json
CONSTANTS Kind, Name, Alias, Other, Vals, DoEmit
VARIABLES items, prev, op, res
vars == <<items, prev, op, res>>

NoOp == [op |-> "init", name |-> "", alias |-> "", k |-> "", v |-> ""]
KeyAlphabet == ({Name, Alias, Other} \ {""})

AttrOps == {[op |-> o, name |-> Name, alias |-> Alias, k |-> "", v |-> ""] : o \in {"getattr", "delattr"}}
           \cup {[op |-> "setattr", name |-> Name, alias |-> Alias, k |-> "", v |-> v] : v \in Vals}
KeyOps  == {[op |-> o, name |-> "", alias |-> "", k |-> k, v |-> ""] :
                o \in {"getkey", "get", "delkey", "pop", "contains"}, k \in KeyAlphabet}
           \cup {[op |-> "setkey", name |-> "", alias |-> "", k |-> k, v |-> v] : k \in KeyAlphabet, v \in Vals}
           \cup {[op |-> "iterate", name |-> "", alias |-> "", k |-> "", v |-> ""]}
ChartOnlyOps == IF Kind = "smchart"
                THEN {[op |-> o, name |-> "", alias |-> "", k |-> Name, v |-> ""] : o \in {"popitem", "update"}}
                ELSE {}
Ops == AttrOps \cup KeyOps \cup ChartOnlyOps

Init == /\ items = IF Kind = "smchart" THEN BlankSMChart ELSE <<>>
        /\ prev = items
        /\ op = NoOp
        /\ res = Ok(<<>>)

Do(o) == LET r == Apply(Kind, items, o) IN
         /\ items' = r.items
         /\ res' = r.res
         /\ prev' = items
         /\ op' = o

GetAttr  == \E o \in Ops : o.op = "getattr"  /\ Do(o)
SetAttr  == \E o \in Ops : o.op = "setattr"  /\ Do(o)
DelAttr  == \E o \in Ops : o.op = "delattr"  /\ Do(o)
GetKey   == \E o \in Ops : o.op \in {"getkey", "get"} /\ Do(o)
SetKey   == \E o \in Ops : o.op = "setkey"   /\ Do(o)
DelKey   == \E o \in Ops : o.op \in {"delkey", "pop"} /\ Do(o)
Contains == \E o \in Ops : o.op = "contains" /\ Do(o)
Iterate  == \E o \in Ops : o.op = "iterate"  /\ Do(o)
Refused  == \E o \in Ops : o.op \in {"popitem", "update"} /\ Do(o)

Next == GetAttr \/ SetAttr \/ DelAttr \/ GetKey \/ SetKey \/ DelKey \/ Contains \/ Iterate \/ Refused
Spec == Init /\ [][Next]_vars

-----------------------------------------------------------------------------
InvUnique  == UniqueKeys(items)
InvFrame   == op.op # "init" => FrameOK(prev, op, items)
InvAttr    == op.op # "init" => AttrOK(prev, op, res, items)
InvSMChart == Kind = "smchart" => SMChartOK(items)
InvReadOnly == op.op \in {"getattr", "getkey", "get", "contains", "iterate"} => items = prev
InvRefused  == res.st # "ok" => items = prev
(* the attribute view and the key view never disagree *)
InvViews   == LET a == AttrView(items, Name, Alias) IN
              /\ Has(items, Name) => a = <<Get(items, Name)>>
              /\ (~Has(items, Name) /\ Alias # "" /\ Has(items, Alias)) => a = <<Get(items, Alias)>>
              /\ (~Has(items, Name) /\ (Alias = "" \/ ~Has(items, Alias))) => a = <<>>

Emit == DoEmit => PrintT(ToJson([prev |-> prev, op |-> op, res |-> res, items |-> items,
                                 ser |-> IF Serializable(Kind, items) THEN <<SerView(Kind, items)>> ELSE <<>>]))
=============================================================================
