------------------------------ MODULE Library -------------------------------
(* simfile.open / open_with_detected_encoding / mutate as a protocol over an  *)
(* abstract filesystem.                                                        *)
(*                                                                            *)
(* A file's content is a content id; what a content decodes to under an        *)
(* encoding is given by a table Dec[content][enc] (a text id, or NoText): the  *)
(* codecs are the trusted base, in the model the table has the overlap          *)
(* structure of the real code pages, in recorded runs it is logged.            *)
(* A filesystem state maps every name to [c |-> content or Absent,              *)
(* partial |-> the file is open for writing and not yet complete].              *)
EXTENDS Integers, Sequences, FiniteSets

Absent == [kind |-> "absent"]
Empty == [kind |-> "empty"]
NoText == "-"
NoName == ""

(* the encoding open() reports: the first of the tried list that decodes *)
Detected(tried, dec) ==       \* dec: function enc -> text or NoText
  LET ok == {k \in DOMAIN tried : dec[tried[k]] # NoText} IN
  IF ok = {} THEN NoName ELSE tried[CHOOSE k \in ok : \A j \in ok : k <= j]

Target(names) == IF names.out = NoName THEN names.in ELSE names.out
Allowed(names) == {Target(names)} \cup (IF names.bak = NoName THEN {} ELSE {names.bak})
NameClash(names) == names.bak # NoName /\ names.bak \in {names.in, names.out}

(* invariants over (fs0, fs), evaluated in EVERY state of a run *)
OnlyAllowedChange(names, fs0, fs) == \A n \in DOMAIN fs : n \notin Allowed(names) => fs[n] = fs0[n]
InputUntouchedWhenOutputGiven(names, fs0, fs) == names.out # NoName /\ names.out # names.in => fs[names.in] = fs0[names.in]
Unchanged(fs0, fs) == fs = fs0

(* a backup that has been requested and written is complete and holds the original *)
BackupGood(names, fs, parsedAs, entryObj) ==
  names.bak # NoName =>
    /\ fs[names.bak].c # Absent /\ ~fs[names.bak].partial
    /\ parsedAs[fs[names.bak].c] = entryObj
=============================================================================
