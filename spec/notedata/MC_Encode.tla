----------------------------- MODULE MC_Encode ------------------------------
(* Bounded model for C08: every position-sorted stream of notes built by      *)
(* appending a strictly greater note, starting from the empty stream; the     *)
(* declarative encoder's output is decoded again.                             *)
EXTENDS NoteData, Json
CONSTANTS Cols, MaxNotes, Players, BeatCodes, KindCodes, DoEmit
(* cfg files cannot hold tuples/records: a beat n/d is coded n * 1000 + d, a kind t * 100000 + (k + 1) *)
BeatSet == {<<b \div 1000, b % 1000>> : b \in BeatCodes}
Kinds == {[t |-> c \div 100000, k |-> (c % 100000) - 1] : c \in KindCodes}
(* BeatSet: set of <<n, d>> in lowest terms; Kinds: set of [t, k] *)
VARIABLE ns
vars == <<ns>>

Cand == {[p |-> p, n |-> b[1], d |-> b[2], c |-> c, t |-> kd.t, k |-> kd.k] :
           p \in Players, b \in BeatSet, c \in 0..(Cols - 1), kd \in Kinds}
Init == ns = <<>>
Add == /\ Len(ns) < MaxNotes
       /\ \E x \in Cand : (IF ns = <<>> THEN TRUE ELSE PosLess(ns[Len(ns)], x)) /\ ns' = Append(ns, x)
Spec == Init /\ [][Add]_vars

Text == Encode(ns, Cols)
InvRoundTrip == Decode(Text) = ns
InvColumns == Columns(Text) = Cols /\ AllRowsWide(Text, Cols)
InvShape == Shape(Text) = ExpectedShape(ns)
InvStable == Encode(Decode(Text), Cols) = Text
InvEmpty == ns = <<>> => Shape(Text) = << <<4>> >>
Emit == DoEmit => PrintT(ToJson([notes |-> ns, cols |-> Cols, text |-> Text, shape |-> ExpectedShape(ns)]))
=============================================================================
