"""Recording / fault-injecting filesystems handed to the library as `filesystem=`.
Every open / write / close becomes a numbered call; the k-th call can be made to fail with
OSError before it takes effect; after every call the bytes of every file are snapshotted."""
import io
import os


class Fault(OSError):
    pass


class Recorder:
    def __init__(self, snapshot, fault_at=0):
        self.snapshot = snapshot        # () -> {name: bytes}
        self.fault_at = fault_at
        self.calls = 0
        self.events = []                # dicts: op, name, mode, enc, ok, files (after), open_w (names open for writing)
        self.open_w = []
        self.leaked = []
        self.marks = []

    def call(self, op, name, mode="", enc=""):
        self.calls += 1
        ev = {"op": op, "name": os.path.basename(name), "mode": mode, "enc": enc or "", "ok": True, "n": self.calls}
        self.events.append(ev)
        if self.fault_at and self.calls == self.fault_at:
            ev["ok"] = False
            self.snap(ev)
            raise Fault("injected fault at filesystem call %d (%s %s)" % (self.calls, op, name))
        return ev

    def snap(self, ev):
        ev["files"] = self.snapshot()
        ev["open_w"] = sorted(set(self.open_w))

    def mark(self, what):
        """a non-filesystem event (the with-block's body finished)"""
        ev = {"op": "mark", "name": what, "mode": "", "enc": "", "ok": True, "n": self.calls}
        self.events.append(ev)
        self.snap(ev)


class WriteWrapper:
    def __init__(self, real, rec, name):
        self.real, self.rec, self.name = real, rec, os.path.basename(name)
        self.closed_ = False

    def write(self, data):
        ev = self.rec.call("write", self.name)
        try:
            n = self.real.write(data)
            self.real.flush()
        except Exception:
            ev["ok"] = False
            self.rec.snap(ev)
            raise
        self.rec.snap(ev)
        return n

    def close(self):
        if self.closed_:
            return
        try:
            ev = self.rec.call("close", self.name)
        except Fault:
            self.rec.leaked.append(self.real)
            raise
        self.real.close()
        self.closed_ = True
        if self.name in self.rec.open_w:
            self.rec.open_w.remove(self.name)
        self.rec.snap(ev)

    def flush(self):
        self.real.flush()

    def __enter__(self):
        return self

    def __exit__(self, *a):
        self.close()
        return False

    def __getattr__(self, k):
        return getattr(self.real, k)


def _do_open(rec, opener, path, mode, kw):
    ev = rec.call("open", path, mode, kw.get("encoding"))
    try:
        real = opener()
    except Exception:
        ev["ok"] = False
        rec.snap(ev)
        raise
    if "w" in mode or "a" in mode or "+" in mode:
        rec.open_w.append(os.path.basename(path))
        rec.snap(ev)
        return WriteWrapper(real, rec, path)
    rec.snap(ev)
    return real


def native_proxy(rec):
    from simfile._private.nativeosfs import NativeOSFS

    class NativeProxy(NativeOSFS):
        def open(self, path, mode="r", *args, **kwargs):
            return _do_open(rec, lambda: io.open(path, mode, *args, **kwargs), path, mode, kwargs)
    return NativeProxy()


def memory_proxy(rec, mem):
    from fs.wrapfs import WrapFS

    class MemProxy(WrapFS):
        def open(self, path, mode="r", buffering=-1, encoding=None, errors=None, newline="", **options):
            kw = {"encoding": encoding}
            return _do_open(rec, lambda: mem.open(path, mode, buffering=buffering, encoding=encoding, errors=errors,
                                                  newline=newline, **options), path, mode, kw)
    return MemProxy(mem)
