-------------------------------- MODULE Beat --------------------------------
(* simfile.timing.Beat / BeatValues: beats are exact rationals <<n, d>> (lowest *)
(* terms, d > 0); inexact inputs (floats, decimals, decimal strings) snap to the  *)
(* 1/48 grid; timing strings are lists of beat=value rows.                        *)
EXTENDS Text, Rat

SUB == 48
FromExact(r) == Norm(r)
(* nearest tick, ties to even (Python's round() on the exact value of the input) *)
NearestTick(r) == RRound(RMul(r, <<SUB, 1>>))
FromInexact(r) == Norm(<<NearestTick(r), SUB>>)
WithinHalfTick(r, b) == LET dlt == RSub(r, b) IN RLeq(<<Abs(dlt[1]), dlt[2]>>, <<1, 2 * SUB>>)

(* the three-decimal text of a tick-aligned beat k/48, k >= 0, in thousandths: *)
(* k/48 rounded to three places, ties to even                                   *)
Str3(k) == RRound(<<125 * k, 6>>)
(* reading a number of thousandths back *)
FromThousandths(m) == NearestTick(<<m, 1000>>)

(* arithmetic: the accumulator machine's step *)
ApplyOp(op, a, b) ==
  CASE op = "add" -> RAdd(a, b) [] op = "sub" -> RSub(a, b) [] op = "mul" -> RMul(a, b)
    [] op = "div" -> RDiv(a, b) [] op = "mod" -> RMod(a, b)
    [] op = "floordiv" -> <<RFloorDiv(a, b), 1>>
    [] op = "neg" -> Norm(RNeg(a)) [] op = "pos" -> a [] op = "abs" -> Norm(<<Abs(a[1]), a[2]>>)
    [] op = "radd" -> RAdd(b, a) [] op = "rsub" -> RSub(b, a) [] op = "rmul" -> RMul(b, a)
    [] op = "rdiv" -> RDiv(b, a) [] op = "rmod" -> RMod(b, a)
NeedsNonZero(op) == op \in {"div", "mod", "floordiv"}
NeedsNonZeroLeft(op) == op \in {"rdiv", "rmod"}
InLowestTerms(r) == r[2] > 0 /\ GCD(r[1], r[2]) = 1

-----------------------------------------------------------------------------
(* decimal texts:  [-+]digits[.digits]  ->  [m |-> mantissa (signed), e |-> places] *)
IsDig(c) == c >= 48 /\ c <= 57
(* TLC's integers are 32-bit: a number with a mantissa of 2 * 10^9 or more, or more than nine decimal places, is *)
(* reported as `big` (the specification does not evaluate it) instead of overflowing                                *)
RECURSIVE DigVal(_, _, _)
DigVal(s, i, acc) == IF i > Len(s) THEN acc
                     ELSE IF acc >= 200000000 THEN -1
                     ELSE DigVal(s, i + 1, acc * 10 + (s[i] - 48))
ParseDecimal(t0) ==
  LET t == Strip(t0)
      neg == t # <<>> /\ t[1] = 45
      body == IF t # <<>> /\ t[1] \in {43, 45} THEN Sub(t, 2, Len(t)) ELSE t
      dots == Positions(body, 46)
      ip == IF dots = <<>> THEN body ELSE Sub(body, 1, dots[1] - 1)
      fp == IF dots = <<>> THEN <<>> ELSE Sub(body, dots[1] + 1, Len(body))
      ok == body # <<>> /\ Len(dots) <= 1 /\ (ip \o fp) # <<>> /\ \A i \in DOMAIN (ip \o fp) : IsDig((ip \o fp)[i])
      mag == IF ok THEN DigVal(ip \o fp, 1, 0) ELSE 0
      big == ok /\ (mag < 0 \/ Len(fp) > 9)
  IN [ok |-> ok, m |-> IF big THEN 0 ELSE IF neg THEN -mag ELSE mag, e |-> IF big THEN 0 ELSE Len(fp), big |-> big]
RECURSIVE Pow10(_)
Pow10(e) == IF e = 0 THEN 1 ELSE 10 * Pow10(e - 1)
DecimalAsRat(dm) == Norm(<<dm.m, Pow10(dm.e)>>)
(* two decimals denote the same number *)
RECURSIVE NormDec(_)
NormDec(x) == IF x.e > 0 /\ x.m % 10 = 0 THEN NormDec([m |-> x.m \div 10, e |-> x.e - 1]) ELSE [m |-> x.m, e |-> x.e]
SameDecimal(a, b) == NormDec(a) = NormDec(b)          \* (no cross-multiplication: TLC integers are 32-bit)

(* "beat=value, beat=value" -> sequence of [k (ticks), v (decimal)], or a failure; `big`: some number of the text *)
(* is too large for this specification to evaluate (see ParseDecimal; beats beyond 4 * 10^7 thousandths likewise)   *)
ParseEvents(text) ==
  IF IsNone(text) \/ AllSpace(text) THEN [ok |-> TRUE, evs |-> <<>>, big |-> FALSE]
  ELSE LET rows == SplitOn(text, COMMA)
           parts(i) == SplitOn(Strip(rows[i]), EQ)
           okRow(i) == Len(parts(i)) = 2 /\ ParseDecimal(parts(i)[1]).ok /\ ParseDecimal(parts(i)[2]).ok
           bigRow(i) == okRow(i) /\ (ParseDecimal(parts(i)[1]).big \/ ParseDecimal(parts(i)[2]).big
                                     \/ Abs(ParseDecimal(parts(i)[1]).m) > 40000000)
       IN IF \E i \in DOMAIN rows : ~okRow(i) THEN [ok |-> FALSE, evs |-> <<>>, big |-> FALSE]
          ELSE IF \E i \in DOMAIN rows : bigRow(i) THEN [ok |-> TRUE, evs |-> <<>>, big |-> TRUE]
          ELSE [ok |-> TRUE, big |-> FALSE,
                evs |-> [i \in DOMAIN rows |-> [k |-> NearestTick(DecimalAsRat(ParseDecimal(parts(i)[1]))),
                                                v |-> ParseDecimal(parts(i)[2])]]]
=============================================================================
