"""C04 — load, save, load loses nothing; a second save changes nothing.

(M)   MC_Load's InvCycle: for every symbol text of the bounded model, whenever the documented
      load rules accept it (strict or lenient, every entry-point class), serializing the result
      with the canonical serializer, tokenizing and parsing again gives the same object (SSC chart
      note data last) and the second serialization equals the first.
(S2C) every text of the bounded model is loaded, saved, loaded and saved again by the real code in
      both formats; the re-loaded object is compared with the object TLC computed for it.
(C2S) generated messy texts, the corpus and mutations / truncations / splices of it go through the
      real cycle under both strictness settings and all three format choices; Trace_Codec
      re-derives the loaded object from the text (MSD model + parse rules), then checks the
      serialization relation, the round trip and the stability of the recorded cycle.
"""
import json
import random

from harness import tlc, core
from harness.core import cps, uncps
from . import codec_common as cc
from . import c03
from .c01 import norm_ssc, show_obj


def load_by(entry, text, strict):
    import simfile
    from simfile.sm import SMSimfile
    from simfile.ssc import SSCSimfile
    if entry == "anon":
        return simfile.loads(text, strict=strict)
    if entry == "sm_ctor":
        return SMSimfile(string=text, strict=strict)
    return SSCSimfile(string=text, strict=strict)


# ---- S2C ------------------------------------------------------------------------------------------

def s2c_job(rec):
    text = uncps(rec["text"])
    viols, n = [], 0
    for entry in ("anon", "sm_ctor", "ssc_ctor"):
        for strict, k in ((True, "s"), (False, "l")):
            cyc = rec["cyc"][entry][k]
            if not cyc["dom"]:
                continue
            n += 1
            case = {"mode": "cycle", "text": text, "strict": strict, "entry": entry}

            def bad(key, what):
                viols.append(("C04:" + key, "%s(%r, strict=%s): %s" % (entry, text, strict, what), case))
            try:
                sf = load_by(entry, text, strict)
            except Exception as e:  # noqa
                bad("load-raised:" + type(e).__name__, "load raised %r although the rules accept the text" % (e,))
                continue
            fmt = cc.fmt_of(sf)
            try:
                out = str(sf)
            except Exception as e:  # noqa
                bad("serialize-raised:" + type(e).__name__, "loads, then str() raised %r" % (e,))
                continue
            try:
                sf2 = type(sf)(string=out)
            except Exception as e:  # noqa
                bad("reload-raised:" + type(e).__name__, "re-loading the output %r raised %r" % (out, e))
                continue
            if fmt != cyc["fmt"] or cc.proj(sf2) != cyc["exp"]:
                bad("reload-differs", "output %r re-loads as %s, specification expects %s" % (
                    out, show_obj(cc.proj(sf2), fmt), show_obj(cyc["exp"], cyc["fmt"])))
                continue
            try:
                out2 = str(sf2)
            except Exception as e:  # noqa
                bad("second-serialize-raised:" + type(e).__name__, "second str() raised %r" % (e,))
                continue
            if out2 != out:
                bad("second-save-differs", "second save %r differs from first %r" % (out2, out))
    return n, viols


def s2c(ctx, maxlen):
    cfgs = []
    for first in c03.SYMS:
        cfgs.append("SPECIFICATION Spec\nCONSTANTS\n Symbols = {%s}\n MaxLen = %d\n First = %d\n DoEmit = FALSE\n"
                    "INVARIANT InvCycle\nINVARIANT EmitCycle\n" % (",".join(map(str, c03.SYMS)), maxlen, first))
    jobs = [dict(module="MC_Load", cfg=c, dirs=cc.DIRS, workers=2, timeout=3000) for c in cfgs]
    results = tlc.run_many(jobs, parallel=8)
    recs = []
    for res in results:
        if res.invariant_violated:
            ctx.violation("C04:model:%s" % res.invariant_violated,
                          "the documented rules themselves violate %s:\n%s" % (res.invariant_violated, (res.error_text or "")[:1500]),
                          {"mode": "model"})
            continue
        tlc.require_ok(res, "MC_Load")
        ctx.add_tlc("MC_Load(cycle)", res)
        recs += res.printed
    n = 0
    for rec, (k, viols) in zip(recs, core.pmap(s2c_job, recs, chunk=50)):
        n += k
        for key, what, case in viols:
            ctx.violation(key, what, case)
        if k:
            ctx.nontrivial_add(("s2c", tuple(rec["text"])))
    if n == 0:
        raise core.MachineryError("vacuity: no loadable text in the bounded model")
    ctx.traces += n
    ctx.evaluations += n
    ctx.notes["s2c_cycles_replayed"] = n
    loadable = [r for r in recs if r["cyc"]["anon"]["l"]["dom"]]
    if loadable:
        r = loadable[len(loadable) // 2]
        ctx.sample({"s2c_text": uncps(r["text"]), "spec_reloaded_object": show_obj(r["cyc"]["anon"]["l"]["exp"], r["cyc"]["anon"]["l"]["fmt"])})


# ---- C2S ------------------------------------------------------------------------------------------

def splice(rng, corp):
    a, b = rng.choice(corp), rng.choice(corp)
    i, j = rng.randrange(len(a) + 1), rng.randrange(len(b) + 1)
    r = rng.random()
    if r < 0.4:
        return a[:i]                      # truncation
    if r < 0.7:
        return a[:i] + b[j:]              # splice
    return c03.mutate(rng, a)


def cycle_record(rid, text, strict, entry):
    from msdparser import parse_msd, MSDParserError
    try:
        sf = load_by(entry, text, strict)
    except Exception as e:  # noqa
        return None, type(e).__name__
    rec, out = cc.ser_record(sf, rid)
    rec["t"] = "cycle"
    rec["det"] = "n/a"
    rec["entry"] = entry
    rec["strict"] = strict
    rec["loadst"] = "ok"
    rec["srclevel"] = "text"
    rec["src"] = []
    rec["srclexst"] = "ok"
    rec["srcparams"] = []
    if rec["level"] == "params" or len(text) > 2500:
        # long text: the tokenizer (trusted base) reads the source; values elided consistently
        if any(isinstance(v, str) and len(v) > cc.ELIDE_AT and k in cc.MULTI for k, v in sf.items()):
            return None, "skipped:long-multi-value"
        rec["srclevel"] = "params"
        try:
            rec["srcparams"] = [[cc.elide(x) for x in p.components]
                                for p in parse_msd(string=text, ignore_stray_text=not strict)]
        except MSDParserError:
            rec["srclexst"] = "MSDParserError"
        except AssertionError:
            rec["srclexst"] = "crash"
        if rec["level"] == "text":
            # the object must be expressed in the same (elided) vocabulary as the source parameters
            rec["obj"] = cc.elide_obj(sf, rec["fmt"])
            if rec["re"]["st"] == "ok":
                re_ = type(sf)(string=out)
                pr = cc.elide_obj(re_, rec["fmt"])
                rec["re"] = {"st": "ok", "items": pr["items"], "charts": pr["charts"]}
            rec["level"] = "params"
            try:
                rec["params"] = [[cc.elide(c) for c in p.components] for p in parse_msd(string=out)]
            except MSDParserError:
                rec["lexst"] = "MSDParserError"
            rec["text"] = []
    else:
        rec["src"] = cps(text)
    return rec, "ok"


def c2s(ctx, ntexts, nmut):
    rng = random.Random(ctx.seed * 13 + 5)
    texts = []
    while len(texts) < ntexts:
        t = c03.gen_text(rng)
        if not c03.lone_backslash(t):
            texts.append(t)
    corp = c03.corpus_texts()
    muts = []
    while len(muts) < nmut:
        t = splice(rng, corp)
        if not c03.lone_backslash(t):
            muts.append(t)
    # texts (written out by hand, not by the library) whose long value / long note data has a character that must be
    # written escaped on or next to a buffer-sized offset (4 ... 64 KiB) of the value itself
    bnd = []
    esc = lambda v: v.replace("\\", "\\\\").replace("//", "\\//").replace(":", "\\:").replace(";", "\\;")      # noqa
    for b in ((4096, 8192, 16384) if ctx.quick else cc.BOUNDARIES):
        for d in (range(-3, 2) if ctx.quick else range(-4, 3)):
            for seq in (("//",) if ctx.quick else ("//", "\\")):
                body = "0" * (b + d) + seq + "1111\n2222"
                bnd.append("#VERSION:0.83;\n#TITLE:t;\n#CREDIT:" + esc(body) + ";\n")
                bnd.append("#TITLE:t;\n#CREDIT:" + esc(body) + ";\n")
                bnd.append("#VERSION:0.83;\n#TITLE:t;\n#NOTEDATA:;\n#STEPSTYPE:dance-single;\n#NOTES:" + esc(body) + ";\n")
                bnd.append("#TITLE:t;\n#NOTES:\n     dance-single:\n     :\n     Hard:\n     9:\n     0,0,0,0,0:\n" + esc(body) + "\n;\n")
    recs, meta = [], {}
    rid = 0
    rejected = {}
    for text in texts + corp + muts + bnd:
        for strict in (True, False):
            for entry in ("anon", "sm_ctor", "ssc_ctor"):
                rec, st = cycle_record(rid, text, strict, entry)
                if rec is None:
                    rejected[st] = rejected.get(st, 0) + 1
                    continue
                recs.append(rec)
                meta[rid] = {"mode": "cycle", "text": text, "strict": strict, "entry": entry}
                rid += 1
    verdict = cc.validate(ctx, recs)
    excluded = {}
    for rec in recs:
        cl = verdict[rec["id"]]
        m = meta[rec["id"]]
        ctx.traces += 1
        ctx.evaluations += 1
        if cl.startswith("domain:"):
            excluded[cl] = excluded.get(cl, 0) + 1
            continue
        if cl.startswith("known:"):
            ctx.violation("C04:" + cl[6:], "known dependency gap: %s" % cl[6:], m)
            continue
        ctx.nontrivial_add((m["text"], m["strict"], m["entry"]))
        if cl:
            key = cl + (":" + rec["serst"] if cl == "serialize-raised" else "")
            ctx.violation("C04:" + key,
                          "%s(text, strict=%s) cycle rejected (%s); source text %r; output %r" % (
                              m["entry"], m["strict"], cl, m["text"][:300],
                              (uncps(rec["text"]) or "")[:300] if rec["level"] == "text" else "(long)"), m)
    ctx.notes["c2s_not_loaded_by_the_code"] = rejected
    ctx.notes["c2s_excluded_by_spec_domain_predicate"] = excluded
    if recs:
        r = recs[len(recs) // 3]
        ctx.sample({"c2s_source_text": meta[r["id"]]["text"][:200], "strict": r["strict"], "entry": r["entry"],
                    "output": (uncps(r["text"]) or "")[:200] if r["level"] == "text" else "(long)"})


def run(ctx):
    s2c(ctx, 3 if ctx.quick else 4)
    if ctx.quick:
        c2s(ctx, 250, 30)
    else:
        c2s(ctx, 4000, 600)
    # whole sessions against System.tla: this check judges the rejections at load / save / re-open events
    from . import system_common as sysc
    sessions, verdict = sysc.run_sessions(ctx, 150 if ctx.quick else 3000, ctx.seed + 4)
    sysc.judge(ctx, "C04", sessions, verdict, sysc.SAVE_OPS, "load / save / re-open lifecycle")
    sessions, verdict = sysc.run_sessions(ctx, 100 if ctx.quick else 2000, ctx.seed + 40, file_bias=True)
    sysc.judge(ctx, "C04", sessions, verdict, sysc.SAVE_OPS, "load / save / re-open lifecycle with named files")
    sysc.mc_for(ctx, "C04")          # MC_System: bounded model of whole sessions, every transition replayed on the library
    ctx.exhaustive = True
    ctx.rule = ("S2C: every loadable text of the bounded MC_Load model x 3 format choices x strict/lenient; C2S: "
                "generated texts (as for C03), corpus files, truncations/splices/mutations of them x the same; "
                "non-trivial = the rules accept the text and the loaded object is outside the escaping gaps; "
                "distinct = distinct (text, strictness, entry)")
    ctx.assumptions += [
        "msdparser's tokenizer is the trusted base (MSD.tla bound to it by check C03)",
        "values in msdparser's escaping gaps and SSC charts without note data are outside the property (spec predicates decide)",
        "texts above 2500 characters are validated at parameter level with long values elided consistently",
    ]


def replay(rec):
    case = rec["case"]
    print(rec.get("what"))
    if case.get("mode") != "cycle":
        return 1
    try:
        sf = load_by(case["entry"], case["text"], case["strict"])
        out = str(sf)
        sf2 = type(sf)(string=out)
        print("first output :", repr(out)[:1500])
        print("reloaded == loaded:", sf2 == sf, "| second output equal:", str(sf2) == out)
    except Exception as e:  # noqa
        print("raised:", repr(e))
    return 1
