---------------------------- MODULE Dump_Object ----------------------------
(* Prints the specification's constant tables for the harness (so that the *)
(* harness has no second copy of them).                                      *)
EXTENDS Object, Json, SequencesExt
VARIABLE x
Init == /\ x = 0
        /\ PrintT(ToJson([known |-> [kind \in Kinds |-> SetToSeq(KnownProps(kind))],
                          smfields |-> SMChartFields]))
Next == UNCHANGED x
=============================================================================
