---------------------------- MODULE Trace_Codec -----------------------------
(* Validates executions recorded from the real library against Codec/MSD.    *)
(* One ndjson line per recorded call sequence:                                 *)
(*  t = "ser":  an object reached by edits was serialized, re-parsed, re-      *)
(*              serialized and auto-detected (C01 / C02 / the save half of C04)*)
(*  t = "load": a text was loaded through some entry point (C03 / C04)         *)
(*  t = "chart": a chart-level entry point (SSCChart.from_str, SMChart.from_str, from_msd) *)
(* Each record gets a verdict: "" (accepted) or the first failing clause.      *)
EXTENDS Codec, Json, IOUtils, TLC
VARIABLE i
Recs == ndJsonDeserialize(IOEnv.TRACE_FILE)
N == Len(Recs)

ObjOf(r) == [items |-> r.items, charts |-> r.charts]

(* ---- "ser" ---------------------------------------------------------------*)
(* r.level = "text": r.text is the emitted text (tokenized here with the MSD  *)
(* model); r.level = "params": r.params is msdparser's reading of it (long     *)
(* components elided consistently with the object's values).                   *)
SerClause(r) ==
  LET o   == r.obj
      gap == IF r.fmt = "sm" THEN SMObjInGap(o) ELSE SSCObjInGap(o)
      lx  == IF r.level = "text" THEN Lex(r.text, TRUE) ELSE [st |-> r.lexst, params |-> r.params]
      ps  == lx.params
      exp == IF r.fmt = "sm" THEN o ELSE NormSSC(o)
      pr  == IF r.fmt = "sm" THEN ParseSM(ps) ELSE ParseSSC(ps)
  IN
  IF gap THEN "domain:escape-gap"                      \* generator error, not a violation
  ELSE IF r.fmt = "sm" /\ SMExtraGap(o) THEN "known:msd-gap:extra-component-hash-after-linebreak"
  ELSE IF ObjCtxGap(o, r.fmt) THEN "known:msd-gap:hash-value-after-linebreak-through-empty-key"
  ELSE IF r.serst # "ok" THEN "serialize-raised"
  ELSE IF lx.st # "ok" THEN "strict-parser-rejects-output"
  ELSE IF ~(IF r.fmt = "sm" THEN SerOK_SM(o, ps) ELSE SerOK_SSC(o, ps)) THEN "parameter-structure"
  ELSE IF pr.st # "ok" \/ [items |-> pr.items, charts |-> pr.charts] # exp THEN "rules-roundtrip"
  ELSE IF r.re.st # "ok" THEN "reparse-raised"
  ELSE IF ObjOf(r.re) # exp THEN "reparse-differs"
  ELSE IF "eq" \in DOMAIN r /\ ~r.eq /\ ~(r.fmt = "ssc" /\ o # exp) THEN "reparsed-object-not-equal-by-the-library's-own-comparison"
  ELSE IF "chre" \in DOMAIN r /\ \E j \in DOMAIN r.chre : ~(MHas(o.charts[j], K_NOTES) /\ MHas(o.charts[j], K_NOTES2))     \* (stand-alone reading ends at either spelling)
                                                           /\ (r.chre[j].st # "ok" \/ r.chre[j].items # exp.charts[j]) THEN "chart-from-str-differs"
  ELSE IF ~r.stable THEN "second-serialization-differs"
  ELSE IF r.det # "n/a" /\ r.det # Detect("anon", <<>>, ps) THEN "auto-detect-disagrees-with-rule"
  ELSE IF r.t = "ser" /\ r.fmt = "sm" /\ ~(o.items # <<>> /\ o.items[1].k = K_VERSION) /\ r.det # "sm" THEN "auto-detect-sm"
  ELSE IF r.t = "ser" /\ r.fmt = "ssc" /\ o.items # <<>> /\ o.items[1].k = K_VERSION /\ r.det # "ssc" THEN "auto-detect-ssc"
  ELSE ""

(* ---- "load" --------------------------------------------------------------*)
(* one record = one text x one strictness, loaded through several entry      *)
(* points: r.calls = <<[entry, name, res]>>; the text is tokenized once.      *)
LexOf(r) == IF r.level = "text" THEN Lex(r.text, r.strict) ELSE [st |-> r.lexst, params |-> r.params]

ExpectedCall(r, lx, c) ==
  IF lx.st # "ok" THEN [st |-> lx.st, fmt |-> "", obj |-> EmptyObj,
                        alt |-> IF r.level = "text" THEN AltOnLexError(lx, c.entry, c.name) ELSE "ValueError"]
  ELSE LoadParams(lx.params, c.entry, c.name)

CallClause(r, lx, strict, c) ==
  LET e == ExpectedCall(r, lx, c) IN
  IF ~strict /\ c.res.st = "MSDParserError" THEN "lenient-rejected"
  ELSE IF c.res.st # e.st /\ c.res.st # e.alt THEN "outcome"
  ELSE IF e.st # "ok" THEN ""
  ELSE IF c.res.fmt # e.fmt THEN "format"
  ELSE IF c.res.items # e.obj.items THEN "properties"
  ELSE IF c.res.charts # e.obj.charts THEN "charts"
  ELSE ""

LoadVerdict(r) ==
  LET lx == LexOf(r) IN
  IF lx.st = "crash" THEN [clause |-> "domain:lone-backslash", at |-> 0]
  ELSE LET badIdx == {k \in DOMAIN r.calls : CallClause(r, lx, r.strict, r.calls[k]) # ""} IN
       IF badIdx = {} THEN [clause |-> "", at |-> 0]
       ELSE LET k == CHOOSE k \in badIdx : \A m \in badIdx : k <= m IN
            [clause |-> CallClause(r, lx, r.strict, r.calls[k]), at |-> k]

(* ---- "chart" -------------------------------------------------------------*)
ChartClause(r) ==
  IF r.entry = "sscchart" THEN
       LET lx == IF r.level = "text" THEN Lex(r.text, r.strict) ELSE [st |-> r.lexst, params |-> r.params]
           e  == IF lx.st # "ok" THEN [st |-> lx.st, chart |-> <<>>] ELSE ParseSSCChart(lx.params) IN
       IF e.st = "crash" THEN "domain:lone-backslash"
       ELSE IF e.st = "empty" THEN "domain:no-parameter"
       ELSE IF r.res.st # e.st
               /\ ~(lx.st = "MSDParserError" /\ r.level = "text" /\ lx.before # <<>>     \* lazy consumer: the
                    /\ ParseSSCChart(lx.before).st = r.res.st) THEN "outcome"              \* first parameter is judged first
       ELSE IF e.st = "ok" /\ r.res.chart # e.chart THEN "chart-items"
       ELSE ""
  ELSE \* "smchart": r.comps are the components after NOTES
       LET e == IF Len(r.comps) < 6 THEN [st |-> "ValueError"] ELSE [st |-> "ok"] IN
       IF r.res.st # e.st THEN "outcome"
       ELSE IF e.st = "ok" /\ [fields |-> r.res.fields, extra |-> r.res.extra] # ChartFromMSD(r.comps) THEN "chart-fields"
       ELSE ""

(* ---- "cycle" (C04) -----------------------------------------------------*)
(* a text r.src was loaded (entry r.entry, strictness r.strict) giving        *)
(* r.obj / r.fmt; that object was then serialized, re-loaded in the same      *)
(* format and serialized again (the fields of a "ser" record).                *)
CycleClause(r) ==
  LET lx == IF r.srclevel = "text" THEN Lex(r.src, r.strict) ELSE [st |-> r.srclexst, params |-> r.srcparams]
  IN
  IF lx.st = "crash" THEN "domain:lone-backslash"
  ELSE IF lx.st # "ok" THEN "domain:not-loadable"
  ELSE LET e == LoadParams(lx.params, r.entry, <<>>) IN
       IF e.st # "ok" THEN "domain:not-loadable"
       ELSE IF r.loadst # "ok" THEN "load-raised"
       ELSE IF e.fmt # r.fmt \/ e.obj # r.obj THEN "load-differs-from-rules"
       ELSE IF r.fmt = "ssc" /\ \E j \in DOMAIN r.obj.charts : ~ChartHasNotes(r.obj.charts[j]) THEN "domain:chart-without-notes"
       ELSE SerClause(r)

Verdict(r) == CASE r.t = "ser" -> [clause |-> SerClause(r), at |-> 0]
                [] r.t = "cycle" -> [clause |-> CycleClause(r), at |-> 0]
                [] r.t = "load" -> LoadVerdict(r)
                [] r.t = "chart" -> [clause |-> ChartClause(r), at |-> 0]

Init == i = 1
Next == /\ i <= N
        /\ LET v == Verdict(Recs[i]) IN PrintT(ToJson([id |-> Recs[i].id, clause |-> v.clause, at |-> v.at]))
        /\ i' = i + 1
Spec == Init /\ [][Next]_i
=============================================================================
