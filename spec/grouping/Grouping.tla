------------------------------ MODULE Grouping ------------------------------
(* group_notes / ungroup_notes / the counting functions of simfile.notes.     *)
(* A note is [n, d, c, t, k] (beat n/d in lowest terms, column, type code      *)
(* point, keysound index or -1); streams are single-player and position-       *)
(* sorted.  A grouped item is a note plus [tn, td]: the tail's beat for a       *)
(* joined head (NoteWithTail), tn = -1 for a plain note.                        *)
EXTENDS Integers, Sequences, FiniteSets

TAP == 49  HOLD == 50  TAIL == 51  ROLL == 52  MINE == 77  LIFT == 76
IsHead(x) == x.t = HOLD \/ x.t = ROLL
Plain(x) == [n |-> x.n, d |-> x.d, c |-> x.c, t |-> x.t, k |-> x.k, tn |-> -1, td |-> 1]
WithTail(h, tl) == [n |-> h.n, d |-> h.d, c |-> h.c, t |-> h.t, k |-> h.k, tn |-> tl.n, td |-> tl.d]
SameBeat(a, b) == a.n = b.n /\ a.d = b.d
BeatLt(a, b) == a.n * b.d < b.n * a.d
PosLt(a, b) == BeatLt(a, b) \/ (SameBeat(a, b) /\ a.c < b.c)

Included(ns, types) == SelectSeq(ns, LAMBDA x : x.t \in types)

-----------------------------------------------------------------------------
(* DECLARATIVE reading of head/tail joining.  inc: the included notes.        *)
NextInCol(inc, i) ==       \* index of the next note in inc[i]'s column, 0 if none
  LET later == {j \in (i + 1)..Len(inc) : inc[j].c = inc[i].c} IN
  IF later = {} THEN 0 ELSE CHOOSE j \in later : \A m \in later : j <= m
Joined(inc, i) == IsHead(inc[i]) /\ NextInCol(inc, i) # 0 /\ inc[NextInCol(inc, i)].t = TAIL
PrevInCol(inc, j) ==
  LET earlier == {i \in 1..(j - 1) : inc[i].c = inc[j].c} IN
  IF earlier = {} THEN 0 ELSE CHOOSE i \in earlier : \A m \in earlier : i >= m
Consumed(inc, j) == inc[j].t = TAIL /\ PrevInCol(inc, j) # 0 /\ IsHead(inc[PrevInCol(inc, j)])
OrphanHead(inc, i) == IsHead(inc[i]) /\ ~Joined(inc, i)
OrphanTail(inc, j) == inc[j].t = TAIL /\ ~Consumed(inc, j)

(* policies: "raise" | "keep" | "drop" *)
Raises(inc, oh, ot) == \/ oh = "raise" /\ \E i \in DOMAIN inc : OrphanHead(inc, i)
                       \/ ot = "raise" /\ \E j \in DOMAIN inc : OrphanTail(inc, j)
Orphans(inc, oh, ot) ==      \* the notes an exception may name
  {inc[i] : i \in {m \in DOMAIN inc : (oh = "raise" /\ OrphanHead(inc, m)) \/ (ot = "raise" /\ OrphanTail(inc, m))}}

(* what each included note contributes to the joined stream: <<item>> or <<>> *)
Contribution(inc, i, oh, ot) ==
  IF IsHead(inc[i]) THEN
       IF Joined(inc, i) THEN <<WithTail(inc[i], inc[NextInCol(inc, i)])>>
       ELSE IF oh = "drop" THEN <<>> ELSE <<Plain(inc[i])>>
  ELSE IF inc[i].t = TAIL THEN
       IF Consumed(inc, i) THEN <<>>
       ELSE IF ot = "drop" THEN <<>> ELSE <<Plain(inc[i])>>
  ELSE <<Plain(inc[i])>>

RECURSIVE FlatFrom(_, _)
FlatFrom(parts, k) == IF k > Len(parts) THEN <<>> ELSE parts[k] \o FlatFrom(parts, k + 1)
Flat(parts) == FlatFrom(parts, 1)

JoinDecl(inc, oh, ot) == Flat([i \in DOMAIN inc |-> Contribution(inc, i, oh, ot)])
NoJoin(inc) == [i \in DOMAIN inc |-> Plain(inc[i])]

-----------------------------------------------------------------------------
(* Same-beat grouping of an item stream: rows are maximal runs of one beat.   *)
RowStarts(items) == SelectSeq([i \in 1..Len(items) |-> i], LAMBDA i : i = 1 \/ ~SameBeat(items[i], items[i - 1]))
Rows(items) ==
  LET st == RowStarts(items) IN
  [r \in DOMAIN st |-> SubSeq(items, st[r], IF r = Len(st) THEN Len(items) ELSE st[r + 1] - 1)]

TypesInOrder(row) == SelectSeq([i \in 1..Len(row) |-> i], LAMBDA i : \A j \in 1..(i - 1) : row[j].t # row[i].t)
RowGroups(row, mode) ==
  CASE mode = "separate" -> [i \in DOMAIN row |-> <<row[i]>>]
    [] mode = "all" -> <<row>>
    [] mode = "bytype" -> LET ts == TypesInOrder(row) IN
                          [g \in DOMAIN ts |-> SelectSeq(row, LAMBDA x : x.t = row[ts[g]].t)]
GroupItems(items, mode) == LET rs == Rows(items) IN Flat([r \in DOMAIN rs |-> RowGroups(rs[r], mode)])

(* group_notes: [st |-> "ok", groups] or [st |-> "OrphanedNoteException", orphans (set)] *)
Group(ns, types, mode, join, oh, ot) ==
  LET inc == Included(ns, types) IN
  IF join /\ Raises(inc, oh, ot) THEN [st |-> "OrphanedNoteException", groups |-> <<>>, orphans |-> Orphans(inc, oh, ot)]
  ELSE [st |-> "ok", groups |-> GroupItems(IF join THEN JoinDecl(inc, oh, ot) ELSE NoJoin(inc), mode), orphans |-> {}]

-----------------------------------------------------------------------------
(* Counting *)
DefaultCountTypes == {TAP, HOLD, ROLL, LIFT}
CountGroups(groups, minimum) == Cardinality({g \in DOMAIN groups : Len(groups[g]) >= minimum})
CountSteps(ns, types, mode, minimum) == CountGroups(Group(ns, types, mode, FALSE, "raise", "raise").groups, minimum)
CountMines(ns) == Cardinality({i \in DOMAIN ns : ns[i].t = MINE})
CountHeld(ns, head, oh, ot) ==      \* count_holds (head = HOLD) / count_rolls (head = ROLL)
  LET g == Group(ns, {head, TAIL}, "separate", TRUE, oh, ot) IN
  IF g.st # "ok" THEN [st |-> g.st, count |-> 0] ELSE [st |-> "ok", count |-> Len(g.groups)]

-----------------------------------------------------------------------------
(* OPERATIONAL reading of joining: the machine the library runs, one step per *)
(* included note.  held: column -> the open head (as a note) ; buffer: items   *)
(* not yet released; out: released items.                                      *)
NoHead == [n |-> -1, d |-> 1, c |-> -1, t |-> 0, k |-> -1]
M0(cols) == [held |-> [c \in cols |-> NoHead], buffer |-> <<>>, out |-> <<>>, err |-> FALSE]
HeldSet(m) == {m.held[c] : c \in {cc \in DOMAIN m.held : m.held[cc] # NoHead}}
AnyHeld(m) == HeldSet(m) # {}

(* release buffered items up to (not including) the first one that is an open head *)
FlushUntilHeld(m) ==
  IF ~AnyHeld(m) THEN [m EXCEPT !.out = @ \o m.buffer, !.buffer = <<>>]
  ELSE LET isHeld(it) == it.tn = -1 /\ [n |-> it.n, d |-> it.d, c |-> it.c, t |-> it.t, k |-> it.k] \in HeldSet(m)
           idx == {i \in DOMAIN m.buffer : isHeld(m.buffer[i])}
           first == IF idx = {} THEN Len(m.buffer) + 1 ELSE CHOOSE i \in idx : \A j \in idx : i <= j
       IN [m EXCEPT !.out = @ \o SubSeq(m.buffer, 1, first - 1), !.buffer = SubSeq(m.buffer, first, Len(m.buffer))]

BufIndex(m, head) == CHOOSE i \in DOMAIN m.buffer : m.buffer[i] = Plain(head)
RemoveAt(s, i) == SubSeq(s, 1, i - 1) \o SubSeq(s, i + 1, Len(s))

(* join_head_to_tail(head or NoHead, note or NoHead) *)
JoinHT(m, head, note, oh, ot) ==
  IF head = NoHead THEN
       IF ot = "raise" THEN [m EXCEPT !.err = TRUE]
       ELSE IF ot = "keep" THEN [m EXCEPT !.buffer = Append(@, Plain(note))]
       ELSE m
  ELSE IF note = NoHead \/ note.t # TAIL THEN
       IF oh = "raise" THEN [m EXCEPT !.err = TRUE]
       ELSE IF oh = "keep" THEN m
       ELSE [m EXCEPT !.buffer = RemoveAt(@, BufIndex(m, head))]
  ELSE [m EXCEPT !.buffer[BufIndex(m, head)] = WithTail(head, note)]

StepNote(m, note, oh, ot) ==
  LET m1 == IF m.held[note.c] # NoHead \/ note.t = TAIL
            THEN LET h == m.held[note.c]
                     m0 == JoinHT([m EXCEPT !.held[note.c] = NoHead], h, note, oh, ot)
                 IN IF m0.err THEN m0 ELSE FlushUntilHeld(m0)
            ELSE m
      m2 == IF IsHead(note) THEN [m1 EXCEPT !.held[note.c] = note] ELSE m1
  IN IF m1.err THEN m1
     ELSE IF note.t = TAIL THEN m2
     ELSE IF AnyHeld(m2) THEN [m2 EXCEPT !.buffer = Append(@, Plain(note))]
     ELSE [m2 EXCEPT !.out = @ \o m2.buffer \o <<Plain(note)>>, !.buffer = <<>>]

(* end of stream: every still-open head is an orphan (in column order), then flush *)
RECURSIVE CleanCols(_, _, _, _)
CleanCols(m, cs, oh, ot) ==
  IF cs = {} \/ m.err THEN m
  ELSE LET c == CHOOSE x \in cs : \A y \in cs : x <= y IN
       CleanCols(IF m.held[c] = NoHead THEN m ELSE JoinHT(m, m.held[c], NoHead, oh, ot), cs \ {c}, oh, ot)
CleanUp(m, oh, ot) ==
  LET m1 == CleanCols(m, DOMAIN m.held, oh, ot) IN
  IF m1.err THEN m1 ELSE [m1 EXCEPT !.out = @ \o m1.buffer, !.buffer = <<>>]

RECURSIVE RunFrom(_, _, _, _, _)
RunFrom(m, inc, i, oh, ot) == IF m.err \/ i > Len(inc) THEN m ELSE RunFrom(StepNote(m, inc[i], oh, ot), inc, i + 1, oh, ot)
JoinOp(inc, cols, oh, ot) == LET m == RunFrom(M0(cols), inc, 1, oh, ot) IN IF m.err THEN m ELSE CleanUp(m, oh, ot)

-----------------------------------------------------------------------------
(* ungroup_notes: iterate the groups' items; a NoteWithTail yields its head    *)
(* now and its tail later, when the iteration passes the tail's position.      *)
(* pending: bag of tails; policy: "raise" | "keep" | "drop".          *)
TailOf(it) == [n |-> it.tn, d |-> it.td, c |-> it.c, t |-> TAIL, k |-> -1]
HeadOf(it) == [n |-> it.n, d |-> it.d, c |-> it.c, t |-> it.t, k |-> it.k]
(* pending is a bag of tails, kept as a sequence (two joined holds may end at one position) *)
MinIdx(ps) == CHOOSE i \in DOMAIN ps : \A j \in DOMAIN ps : ps[i] = ps[j] \/ PosLt(ps[i], ps[j]) \/ (~PosLt(ps[j], ps[i]) /\ i <= j)
DropAt(ps, i) == SubSeq(ps, 1, i - 1) \o SubSeq(ps, i + 1, Len(ps))

RECURSIVE PopWhile(_, _, _)
PopWhile(pending, out, note) ==       \* release pending tails positioned before `note`
  IF pending = <<>> THEN [pending |-> pending, out |-> out]
  ELSE LET i == MinIdx(pending) IN
       IF PosLt(pending[i], note) THEN PopWhile(DropAt(pending, i), Append(out, pending[i]), note)
       ELSE [pending |-> pending, out |-> out]
RECURSIVE PopAll(_, _)
PopAll(pending, out) == IF pending = <<>> THEN out
                        ELSE LET i == MinIdx(pending) IN PopAll(DropAt(pending, i), Append(out, pending[i]))

RECURSIVE UngroupFrom(_, _, _, _, _)
UngroupFrom(items, i, pending, out, policy) ==
  IF i > Len(items) THEN [st |-> "ok", notes |-> PopAll(pending, out)]
  ELSE LET it == items[i]
           p  == PopWhile(pending, out, it)
           inside == \E t \in DOMAIN p.pending : p.pending[t].c = it.c
           pend2 == IF it.tn >= 0 THEN Append(p.pending, TailOf(it)) ELSE p.pending
       IN IF inside /\ policy = "raise" THEN [st |-> "OrphanedNoteException", notes |-> <<>>]
          ELSE UngroupFrom(items, i + 1, pend2,
                           IF inside /\ policy = "drop" THEN p.out ELSE Append(p.out, HeadOf(it)), policy)
Ungroup(groups, policy) == UngroupFrom(Flat(groups), 1, <<>>, <<>>, policy)

(* what C10 promises for the output of group_notes *)
DroppedByGroup(inc, join, oh, ot) ==
  IF ~join THEN {} ELSE {i \in DOMAIN inc : (oh = "drop" /\ OrphanHead(inc, i)) \/ (ot = "drop" /\ OrphanTail(inc, i))}
ExpectedUngrouped(inc, join, oh, ot) ==
  LET dr == DroppedByGroup(inc, join, oh, ot)
      keep == SelectSeq([i \in 1..Len(inc) |-> i], LAMBDA i : i \notin dr)
  IN [k \in DOMAIN keep |-> inc[keep[k]]]
(* a note `it` (position i in the flattened items) lies inside a joined hold on its column *)
InsideHold(items, i) ==
  \E j \in 1..(i - 1) : items[j].tn >= 0 /\ items[j].c = items[i].c /\ ~PosLt(TailOf(items[j]), items[i])
BagEq(a, b) == Len(a) = Len(b) /\ \A x \in {a[i] : i \in DOMAIN a} :
                 Cardinality({i \in DOMAIN a : a[i] = x}) = Cardinality({i \in DOMAIN b : b[i] = x})
NonDecreasingBeats(s) == \A i \in 1..(Len(s) - 1) : ~BeatLt(s[i + 1], s[i])
=============================================================================
