---------------------------- MODULE MC_Grouping -----------------------------
(* C09 (M): the operational join machine, run one step per note on EVERY      *)
(* stream of a small grid under every orphan policy, refines the declarative   *)
(* reading ("each head pairs with the next tail in its column").               *)
EXTENDS Grouping, Json, TLC
CONSTANTS NRows, NCols, KindSet, DoEmit    \* KindSet: cell kinds as type code points, 0 = empty cell
VARIABLES cells, oh, ot, m, pos, phase
vars == <<cells, oh, ot, m, pos, phase>>

Policies == {"raise", "keep", "drop"}
Cols == 0..(NCols - 1)
CellIdx == 1..(NRows * NCols)
StreamOf(cs) ==       \* row-major: position-sorted by construction
  LET nz == SelectSeq([i \in 1..(NRows * NCols) |-> i], LAMBDA i : cs[i] # 0) IN
  [k \in DOMAIN nz |-> [n |-> (nz[k] - 1) \div NCols, d |-> 1, c |-> (nz[k] - 1) % NCols, t |-> cs[nz[k]], k |-> -1]]
Stream == StreamOf(cells)

Init == /\ cells \in [CellIdx -> KindSet]
        /\ oh \in Policies /\ ot \in Policies
        /\ m = M0(Cols) /\ pos = 1 /\ phase = "run"
Step == /\ phase = "run" /\ pos <= Len(Stream) /\ ~m.err
        /\ m' = StepNote(m, Stream[pos], oh, ot) /\ pos' = pos + 1
        /\ UNCHANGED <<cells, oh, ot, phase>>
Finish == /\ phase = "run" /\ (pos > Len(Stream) \/ m.err)
          /\ m' = (IF m.err THEN m ELSE CleanUp(m, oh, ot)) /\ phase' = "done"
          /\ UNCHANGED <<cells, oh, ot, pos>>
Next == Step \/ Finish
Spec == Init /\ [][Next]_vars

(* refinement: at the end the machine's verdict and output are the declarative ones *)
InvRefines == phase = "done" =>
                /\ m.err <=> Raises(Stream, oh, ot)
                /\ ~m.err => m.out = JoinDecl(Stream, oh, ot) /\ m.buffer = <<>>
(* while running: nothing is buffered unless a head is open; every open head is in the buffer *)
InvBuffer == (phase = "run" /\ ~m.err) =>
                /\ ~AnyHeld(m) => m.buffer = <<>>
                /\ \A h \in HeldSet(m) : \E i \in DOMAIN m.buffer : m.buffer[i] = Plain(h)
(* released and buffered items stay in stream order *)
InvOrder == LET s == m.out \o m.buffer IN \A i \in 1..(Len(s) - 1) : PosLt(s[i], s[i + 1])
(* the function composed as a fold equals the stepwise machine *)
InvFold == phase = "done" => LET f == JoinOp(Stream, Cols, oh, ot) IN f.err = m.err /\ (~m.err => f.out = m.out)

Emit == (DoEmit /\ phase = "done") =>
          PrintT(ToJson([notes |-> Stream, oh |-> oh, ot |-> ot, err |-> m.err, items |-> IF m.err THEN <<>> ELSE m.out]))
=============================================================================
