---------------------------- MODULE MC_Discovery ----------------------------
(* Bounded models for C19 / C20.  Mode "dir": every listing (sequence without       *)
(* repetition) of up to MaxLen names from a small alphabet of simfile names in mixed   *)
(* case and near misses.  Mode "pack": every pack of up to MaxLen entries of seven       *)
(* kinds.  Mode "asset": every listing of up to MaxLen asset-ish names x property value   *)
(* states x asset kinds.  Mode "banner": pack listings of images x sibling listings.       *)
EXTENDS Discovery, Json, TLC
CONSTANTS Mode, MaxLen, DoEmit
VARIABLE lst
Names == <<<<97, 46, 115, 109>>, <<65, 46, 83, 77>>, <<98, 46, 83, 109>>, <<97, 46, 115, 115, 99>>, <<66, 46, 83, 83, 67>>, <<99, 46, 115, 109, 46, 111, 108, 100>>, <<100, 46, 115, 115, 99, 97>>, <<115, 109>>, <<101, 46, 112, 110, 103>>, <<102, 46, 111, 103, 103>>, <<46, 95, 97, 46, 83, 77>>, <<46, 115, 115, 99>>>>
ANames == <<<<98, 97, 110, 110, 101, 114, 46, 112, 110, 103>>, <<120, 98, 110, 46, 112, 110, 103>>, <<98, 110, 46, 116, 120, 116>>, <<66, 65, 78, 78, 69, 82, 46, 80, 78, 71>>, <<98, 110, 120, 46, 112, 110, 103>>, <<106, 107, 95, 97, 46, 112, 110, 103>>, <<97, 106, 107, 95, 46, 112, 110, 103>>, <<97, 45, 99, 100, 46, 112, 110, 103>>, <<97, 45, 99, 100, 120, 46, 112, 110, 103>>, <<115, 111, 110, 103, 46, 111, 103, 103>>, <<115, 111, 110, 103, 46, 111, 103, 120>>, <<98, 103, 46, 106, 112, 103>>, <<120, 32, 99, 100, 116, 105, 116, 108, 101, 32, 121, 46, 103, 105, 102>>, <<105, 109, 103>>, <<118, 46, 50, 32, 98, 110, 46, 112, 110, 103>>, <<115, 111, 110, 103, 98, 110, 46, 111, 108, 100, 46, 112, 110, 103>>, <<98, 97, 110, 110, 101, 114, 45, 98, 103, 46, 112, 110, 103>>, <<106, 107, 95, 97, 108, 98, 117, 109, 98, 103, 46, 106, 112, 103>>, <<66, 97, 110, 110, 101, 114, 46, 79, 71, 71>>, <<67, 111, 118, 101, 114, 32, 91, 72, 68, 93, 46, 112, 110, 103>>, <<99, 111, 118, 101, 114, 120, 46, 112, 110, 103>>>>
ImgNames == <<<<122, 46, 112, 110, 103>>, <<97, 46, 80, 78, 71>>, <<109, 46, 106, 112, 103>>, <<98, 46, 106, 112, 101, 103>>, <<99, 46, 103, 105, 102>>, <<100, 46, 98, 109, 112>>, <<114, 101, 97, 100, 109, 101, 46, 116, 120, 116>>, <<112, 97, 99, 107, 46, 112, 110, 103, 46, 98, 97, 107>>>>
PackName == <<77, 121, 32, 80, 97, 99, 107>>
SibNames == <<<<77, 121, 32, 80, 97, 99, 107, 46, 112, 110, 103>>, <<77, 121, 32, 80, 97, 99, 107, 46, 106, 112, 103>>, <<109, 121, 32, 112, 97, 99, 107, 46, 112, 110, 103>>, <<77, 121, 32, 80, 97, 99, 107, 46, 98, 109, 112>>, <<79, 116, 104, 101, 114, 46, 112, 110, 103>>>>
Alphabet == CASE Mode = "dir" -> 1..Len(Names) [] Mode = "pack" -> 1..7 [] Mode = "asset" -> 1..Len(ANames) [] Mode = "banner" -> 1..(Len(ImgNames) + Len(SibNames))
Init == lst = <<>>
Next == Len(lst) < MaxLen /\ \E x \in Alphabet : (Mode = "pack" \/ \A i \in DOMAIN lst : lst[i] # x) /\ lst' = Append(lst, x)
Spec == Init /\ [][Next]_lst

Listing == [i \in DOMAIN lst |-> Names[lst[i]]]
(* pack entry kinds *)
SM1 == <<115, 111, 110, 103, 46, 115, 109>>  SSC1 == <<115, 111, 110, 103, 46, 83, 83, 67>>  SM2 == <<111, 116, 104, 101, 114, 46, 83, 109>>  TXT == <<110, 111, 116, 101, 115, 46, 116, 120, 116>>  INNER == <<105, 110, 110, 101, 114>>
EntryOf(k, i) == LET nm == <<100, 48 + i>> IN          \* "d<i>"
  CASE k = 1 -> [name |-> nm, isdir |-> TRUE, sub |-> <<SM1>>, kind |-> "sm"]
    [] k = 2 -> [name |-> nm, isdir |-> TRUE, sub |-> <<TXT, SSC1, SM1>>, kind |-> "both"]
    [] k = 3 -> [name |-> nm, isdir |-> TRUE, sub |-> <<>>, kind |-> "empty"]
    [] k = 4 -> [name |-> nm, isdir |-> TRUE, sub |-> <<INNER, TXT>>, kind |-> "nested"]
    [] k = 5 -> [name |-> nm \o X_SM, isdir |-> FALSE, sub |-> <<>>, kind |-> "loosefile"]
    [] k = 6 -> [name |-> nm, isdir |-> TRUE, sub |-> <<SM1, SM2>>, kind |-> "dup"]
    [] k = 7 -> [name |-> nm, isdir |-> TRUE, sub |-> <<SM1>>, kind |-> "stray"]
Entries == [i \in DOMAIN lst |-> EntryOf(lst[i], i)]

InvDir == Mode = "dir" => \A ig \in BOOLEAN :
  LET v == DirView(Listing, ig)
      sms == {i \in DOMAIN Listing : IsSM(Listing[i])}  sscs == {i \in DOMAIN Listing : IsSSC(Listing[i])} IN
  /\ (v.st = "DuplicateSimfileError") <=> (~ig /\ (Cardinality(sms) > 1 \/ Cardinality(sscs) > 1))
  /\ v.st = "ok" => /\ (v.sm = NoneName <=> sms = {}) /\ (v.ssc = NoneName <=> sscs = {})
                    /\ (sms # {} => \E i \in sms : v.sm = Listing[i] /\ \A j \in sms : i <= j)
                    /\ (sscs # {} => \E i \in sscs : v.ssc = Listing[i] /\ \A j \in sscs : i <= j)
                    /\ (OpenTarget(v) = NoneName <=> (sms = {} /\ sscs = {}))
(* near misses are never simfiles; any letter case of the extension is *)
InvNames == /\ \A n \in {Names[1], Names[2], Names[3]} : IsSM(n) /\ ~IsSSC(n)
            /\ \A n \in {Names[4], Names[5]} : IsSSC(n) /\ ~IsSM(n)
            /\ \A k \in 6..10 : ~IsSimfile(Names[k])
InvPack == Mode = "pack" =>
  LET pv == PackView(Entries) IN
  /\ \A i \in DOMAIN Entries : (\E j \in DOMAIN pv : pv[j] = Entries[i].name) <=> Entries[i].kind \in {"sm", "both", "dup", "stray"}
  /\ \A a, b \in DOMAIN pv : a < b => \E i, j \in DOMAIN Entries : i < j /\ Entries[i].name = pv[a] /\ Entries[j].name = pv[b]

AKinds == {"BANNER", "BACKGROUND", "CDTITLE", "JACKET", "CDIMAGE", "MUSIC"}
AListing == [i \in DOMAIN lst |-> ANames[lst[i]]]
ASubs == << [name |-> <<105, 109, 103>>, listing |-> <<<<66, 46, 112, 110, 103>>, <<115, 111, 110, 103, 46, 79, 71, 71>>>>] >>
AValues == {[state |-> "absent", dir |-> NoneName, file |-> NoneName], [state |-> "empty", dir |-> NoneName, file |-> NoneName],
            [state |-> "value", dir |-> NoneName, file |-> <<66, 97, 110, 110, 101, 114, 46, 80, 78, 71>>],
            [state |-> "value", dir |-> NoneName, file |-> <<109, 105, 115, 115, 105, 110, 103, 46, 112, 110, 103>>],
            [state |-> "value", dir |-> NoneName, file |-> <<99, 111, 118, 101, 114, 32, 91, 104, 100, 93, 46, 80, 78, 71>>],
            [state |-> "value", dir |-> NoneName, file |-> <<99, 111, 118, 101, 114, 91, 120, 121, 122, 93, 46, 112, 110, 103>>],
            [state |-> "value", dir |-> <<105, 109, 103>>, file |-> <<98, 46, 80, 78, 71>>],
            [state |-> "value", dir |-> <<105, 109, 103>>, file |-> <<110, 111, 112, 101, 46, 112, 110, 103>>],
            [state |-> "value", dir |-> <<109, 105, 115, 115, 105, 110, 103>>, file |-> <<98, 46, 112, 110, 103>>]}
InvAsset == Mode = "asset" => \A kind \in AKinds, v \in AValues :
  LET ans == AssetAnswers(kind, AListing, ASubs, v) IN
  /\ ans # {}
  /\ \A a \in ans : a[2] # NoneName =>                    \* never a path that does not exist
       IF a[1] = NoneName THEN \E i \in DOMAIN AListing : AListing[i] = a[2]
       ELSE \E i \in DOMAIN SubListing(ASubs, a[1]) : SubListing(ASubs, a[1])[i] = a[2]
  /\ (<<NoneName, NoneName>> \in ans) => ans = {<<NoneName, NoneName>>} /\ \A i \in DOMAIN AListing : ~Matches(kind, AListing[i])
BListing == LET xs == SelectSeq(lst, LAMBDA x : x <= Len(ImgNames)) IN [i \in DOMAIN xs |-> ImgNames[xs[i]]]
BSiblings == LET xs == SelectSeq(lst, LAMBDA x : x > Len(ImgNames)) IN [i \in DOMAIN xs |-> SibNames[xs[i] - Len(ImgNames)]]
InvBanner == Mode = "banner" =>
  LET ans == BannerAnswers(BListing, BSiblings, PackName) IN
  /\ ans # {}
  /\ (\E i \in DOMAIN BListing : ImageRank(BListing[i]) # 0) => \A a \in ans : a[1] = "in"

Emit == DoEmit => PrintT(ToJson(
  CASE Mode = "dir" -> [mode |-> "dir", listing |-> Listing, v0 |-> DirView(Listing, FALSE), v1 |-> DirView(Listing, TRUE)]
    [] Mode = "pack" -> [mode |-> "pack", entries |-> Entries, dirs |-> PackView(Entries)]
    [] Mode = "asset" -> [mode |-> "asset", listing |-> AListing, subs |-> ASubs]
    [] Mode = "banner" -> [mode |-> "banner", listing |-> BListing, siblings |-> BSiblings, packname |-> PackName,
                           ans |-> BannerAnswers(BListing, BSiblings, PackName)]))
=============================================================================
