----------------------------- MODULE Trace_Beat -----------------------------
(* Validates recorded uses of Beat / BeatValues / TimingData.                  *)
(*  [t "exact",  inp <<n, d>>, got <<n, d>>]             Beat(int | Fraction | n, d)                 *)
(*  [t "inexact", inp <<n, d>> (exact value of the float / decimal / string), got]                    *)
(*  [t "str", w, r, neg, ip, fp]   str(Beat) of the tick 48*w + r (sign neg): integer / fraction digits *)
(*  [t "fromstr", text, got]                                                                              *)
(*  [t "op", op, a, b, got, isbeat, raised]                                                               *)
(*  [t "events", text, st, evs <<[n, d, m, e]>>, printed (text of str(BeatValues)), again (evs parsed from it)] *)
EXTENDS Beat, Json, IOUtils, TLC
VARIABLE i
Recs == ndJsonDeserialize(IOEnv.TRACE_FILE)
N == Len(Recs)

EvOK(e, x) == Norm(<<e.k, SUB>>) = <<x.n, x.d>> /\ SameDecimal(e.v, [m |-> x.m, e |-> x.e])
EvsOK(spec, got) == Len(spec) = Len(got) /\ \A j \in DOMAIN spec : EvOK(spec[j], got[j])

Clause(r) ==
  CASE r.t = "exact" -> IF r.got = FromExact(r.inp) THEN "" ELSE "exact-construction"
    [] r.t = "inexact" -> IF r.got = FromInexact(r.inp) /\ WithinHalfTick(r.inp, r.got) THEN "" ELSE "snap-to-tick"
    [] r.t = "str" -> LET th == Str3(r.r) IN         \* r.r in 0..47: the fraction may round up to a whole beat
                      IF r.neg # (r.sgn /\ (r.w > 0 \/ th > 0)) THEN "three-decimal-form-sign"
                      ELSE IF th < 1000 /\ r.ip = r.w /\ r.fp = th THEN ""
                      ELSE IF th = 1000 /\ r.ip = r.w + 1 /\ r.fp = 0 THEN "" ELSE "three-decimal-form"
    [] r.t = "fromstr" -> LET dm == ParseDecimal(r.text) IN
                          IF ~dm.ok THEN "domain:not-a-decimal"
                          ELSE IF dm.big THEN "domain:number-too-large-for-the-specification"
                          ELSE IF r.got = FromInexact(DecimalAsRat(dm)) THEN "" ELSE "from-str"
    [] r.t = "op" -> IF (NeedsNonZero(r.op) /\ r.b[1] = 0) \/ (NeedsNonZeroLeft(r.op) /\ r.a[1] = 0) THEN
                          (IF r.raised THEN "" ELSE "division-by-zero-not-raised")
                     ELSE IF r.raised THEN "arithmetic-raised"
                     ELSE IF r.got # ApplyOp(r.op, r.a, r.b) THEN "arithmetic-value"
                     ELSE IF ~r.isbeat THEN "arithmetic-result-is-not-a-beat" ELSE ""
    [] r.t = "events" -> LET e == ParseEvents(r.text) IN
                         IF ~e.ok THEN (IF r.st # "ok" THEN "" ELSE "domain:malformed-accepted")
                         ELSE IF e.big THEN "domain:number-too-large-for-the-specification"
                         ELSE IF r.st # "ok" THEN "events-rejected"
                         ELSE IF ~EvsOK(e.evs, r.evs) THEN "events-parse"
                         ELSE LET p == ParseEvents(r.printed) IN
                              IF ~p.ok \/ ~EvsOK(p.evs, r.evs) THEN "events-print"
                              ELSE IF r.again # r.evs THEN "events-round-trip" ELSE ""

Init == i = 1
Next == i <= N /\ PrintT(ToJson([id |-> Recs[i].id, clause |-> Clause(Recs[i])])) /\ i' = i + 1
Spec == Init /\ [][Next]_i
=============================================================================
