"""Shared by C01-C04: projections of real simfile objects to the Codec specification's
state, builders (spec state -> real object), generators, and the TLC trace-validation
driver for Trace_Codec."""
import io
import json
import os
import random
import re
import zlib

from harness import tlc, core
from harness.core import cps, uncps

DIRS = ["codec"]
REPO = core.REPO


# ---- projections ----------------------------------------------------------------------

def _v(s):
    if s is None:
        return [-1]
    if not isinstance(s, str):
        return [ord(c) for c in "<non-str %s>" % type(s).__name__]
    return [ord(c) for c in s]


def proj_items(d):
    return [{"k": _v(k), "v": _v(v)} for k, v in d.items()]


def proj_sm(sf):
    return {"items": proj_items(sf),
            "charts": [{"fields": [_v(c.get(f)) for f in SMF],
                        "extra": [_v(x) for x in (c.extradata or [])]} for c in sf.charts]}


SMF = ("STEPSTYPE", "DESCRIPTION", "DIFFICULTY", "METER", "RADARVALUES", "NOTES")


def proj_ssc(sf):
    return {"items": proj_items(sf), "charts": [proj_items(c) for c in sf.charts]}


def proj(sf):
    from simfile.sm import SMSimfile
    return proj_sm(sf) if isinstance(sf, SMSimfile) else proj_ssc(sf)


def fmt_of(sf):
    from simfile.sm import SMSimfile
    from simfile.ssc import SSCSimfile
    if isinstance(sf, SMSimfile):
        return "sm"
    if isinstance(sf, SSCSimfile):
        return "ssc"
    return "?" + type(sf).__name__


# ---- builders (spec state -> real objects) ------------------------------------------------

def fresh(cp):
    """a string built at run time (never a compile-time literal)"""
    s = uncps(cp)
    if s is None:
        return None
    return "".join([c for c in s])


def build_sm(o):
    from simfile.sm import SMSimfile, SMChart
    sf = SMSimfile(string="")
    for e in o["items"]:
        sf[fresh(e["k"])] = fresh(e["v"])
    for ch in o["charts"]:
        c = SMChart.from_msd([fresh(f) for f in ch["fields"]])
        # fields in the spec are already stripped; from_msd strips again (idempotent)
        c.extradata = [fresh(x) for x in ch["extra"]] or None
        sf.charts.append(c)
    return sf


def build_ssc(o, share=False):
    """share=True: values equal to the chart's note data are THE SAME string object"""
    from simfile.ssc import SSCSimfile, SSCChart
    sf = SSCSimfile(string="")
    for e in o["items"]:
        sf[fresh(e["k"])] = fresh(e["v"])
    for ch in o["charts"]:
        c = SSCChart()
        notes_obj = None
        for e in ch:
            if uncps(e["k"]) in ("NOTES", "NOTES2"):
                notes_obj = fresh(e["v"])
        for e in ch:
            v = fresh(e["v"])
            if share and v is not None and v == notes_obj:
                v = notes_obj
            c[fresh(e["k"])] = v
        sf.charts.append(c)
    return sf


# ---- observation of one serialize / reparse cycle ----------------------------------------

ELIDE_AT = 120


def elide(s):
    """shorten a long value so that equality and strip() are preserved (the middle of the
    stripped core is replaced by one negative sentinel derived from a hash of it)"""
    if s is None:
        return [-1]
    if len(s) <= ELIDE_AT:
        return cps(s)
    core_ = s.strip()
    if len(core_) <= ELIDE_AT:
        return cps(s)
    a = len(s) - len(s.lstrip())
    b = len(s) - len(s.rstrip())
    head, tail = core_[:24], core_[-24:]
    mid = core_[24:-24]
    # case-folded: a long KEY is upper-cased by the loader, and Upper() must commute with elision
    h = zlib.crc32(mid.upper().encode("utf-8", "surrogatepass")) & 0x3FFFFFFF
    return cps(s[:a] + head) + [-(2 + h)] + cps(tail + (s[len(s) - b:] if b else ""))


def elide_obj(o_real, fmt):
    """projection with elision (param level)"""
    if fmt == "sm":
        return {"items": [{"k": elide(k), "v": elide(v)} for k, v in o_real.items()],
                "charts": [{"fields": [elide(c.get(f)) for f in SMF],
                            "extra": [elide(x) for x in (c.extradata or [])]} for c in o_real.charts]}
    return {"items": [{"k": elide(k), "v": elide(v)} for k, v in o_real.items()],
            "charts": [[{"k": elide(k), "v": elide(v)} for k, v in c.items()] for c in o_real.charts]}


MULTI = ("ATTACKS", "DISPLAYBPM")


def failing_str():
    """an EARLIER serialization in the same thread that raises part-way (an unrelated simfile whose second chart has no
    note data / an empty object): whatever it leaves behind must not show in the next one"""
    from simfile.ssc import SSCSimfile, SSCChart
    from simfile.sm import SMSimfile
    bad = SSCSimfile(string="#VERSION:0.83;\n#TITLE:unrelated;\n#NOTEDATA:;\n#CREDIT:left over;\n#NOTES:0000;\n")
    c = SSCChart()
    c["CREDIT"] = "left over too"
    bad.charts.append(c)
    for victim in (bad, c, SSCSimfile(string=""), bad.charts):
        try:
            str(victim)
        except Exception:  # noqa
            pass
    sm = SMSimfile(string="#TITLE:unrelated;\n")
    sm["ARTIST"] = 5
    try:
        str(sm)
    except Exception:  # noqa
        pass


def ser_record(sf, rid, text_limit=2500):
    """serialize sf, re-parse strictly with its own class, re-serialize, auto-detect."""
    import simfile
    from msdparser import parse_msd, MSDParserError
    fmt = fmt_of(sf)
    if isinstance(rid, int) and rid % 5 == 3:
        failing_str()
    rec = {"t": "ser", "id": rid, "fmt": fmt, "level": "text", "obj": proj(sf), "serst": "ok",
           "text": [], "lexst": "ok", "params": [],
           "re": {"st": "none", "items": [], "charts": []}, "stable": False, "det": "", "eq": True}
    try:
        text = str(sf)
        out = io.StringIO()
        sf.serialize(out)
        if out.getvalue() != text:
            rec["serst"] = "str-and-serialize-differ"
    except Exception as e:  # noqa
        rec["serst"] = type(e).__name__
        if len(json.dumps(rec["obj"])) > 6 * text_limit:
            rec["level"] = "params"          # big object: keep TLC's work bounded (values elided)
            rec["obj"] = elide_obj(sf, fmt)
        return rec, None
    long_value = any(isinstance(v, str) and len(v) > ELIDE_AT and ":" in v and k in MULTI for k, v in sf.items())
    if len(text) > text_limit and not long_value:
        rec["level"] = "params"
        rec["obj"] = elide_obj(sf, fmt)
        try:
            rec["params"] = [[elide(c) for c in p.components] for p in parse_msd(string=text)]
        except MSDParserError:
            rec["lexst"] = "MSDParserError"
        except AssertionError:
            rec["lexst"] = "crash"
    else:
        rec["text"] = cps(text)
    # auto-detection is claimed for SM unless VERSION is the first key, for SSC when it is
    first_version = bool(sf) and next(iter(sf.keys())) == "VERSION"
    det_claimed = (fmt == "sm") != first_version
    try:
        # the text is read back through one of the loader's entry points (they must all agree with the rules)
        how = zlib.crc32(text.encode("utf-8", "surrogatepass")) % 5
        if how == 1:
            re_ = type(sf)(file=io.StringIO(text))
        elif how == 2:
            re_ = type(sf)(file=iter(text.splitlines(keepends=True)))
        elif how == 3 and det_claimed:
            re_ = simfile.loads(text)
        elif how == 4 and det_claimed:
            re_ = simfile.load(io.StringIO(text))
        else:
            re_ = type(sf)(string=text)
        rec["re_entry"] = how
        if type(re_) is not type(sf):
            raise TypeError("re-read as %s" % type(re_).__name__)
        pr = elide_obj(re_, fmt) if rec["level"] == "params" else proj(re_)
        rec["re"] = {"st": "ok", "items": pr["items"], "charts": pr["charts"]}
        try:
            rec["eq"] = bool(re_ == sf) and not bool(re_ != sf)       # the library's own notion of "an equal simfile"
        except Exception:  # noqa
            rec["eq"] = False
        try:
            rec["stable"] = (str(re_) == text)
        except Exception:  # noqa
            rec["stable"] = False
    except Exception as e:  # noqa
        rec["re"] = {"st": type(e).__name__, "items": [], "charts": []}
    if fmt == "ssc":
        # every chart on its own: SSCChart.from_str(str(chart)) is the chart again (note data last)
        from simfile.ssc import SSCChart
        rec["chre"] = []
        for c in list(sf.charts)[:4]:
            try:
                c2 = SSCChart.from_str(str(c))
                items = [{"k": elide(k), "v": elide(v)} for k, v in c2.items()] if rec["level"] == "params" else proj_items(c2)
                rec["chre"].append({"st": "ok", "items": items})
            except Exception as e:  # noqa
                rec["chre"].append({"st": type(e).__name__, "items": []})
    if det_claimed:
        try:
            rec["det"] = fmt_of(simfile.loads(text))
        except Exception as e:  # noqa
            rec["det"] = "raised:" + type(e).__name__
    else:
        rec["det"] = "n/a"
    return rec, text


# ---- generators ------------------------------------------------------------------------------

META = ":;\\/#\n\r"
PLAIN = "abzAZ09 _-.,=()[]!é猫ñ𝄞́ \t"


def rand_text(rng, maxlen=12, meta_weight=0.45, allow_nl=True):
    n = rng.choice([0, 0, 1, 1, 2, 3, 4, 6, 8, maxlen])
    out = []
    for _ in range(n):
        if rng.random() < meta_weight:
            c = rng.choice(META)
            if not allow_nl and c in "\n\r":
                c = ":"
            out.append(c)
            if c == "/" and rng.random() < 0.5:
                out.append("/")
        else:
            out.append(rng.choice(PLAIN))
        if rng.random() < 0.04 and allow_nl:
            out.append(rng.choice(["\n \n", "\n\t\n", "\r\n  \r\n", "e\u0301", "\u1112\u1161\u11ab", "\u212b"]))   # blank-only lines; decomposed text
    return "".join(out)


_GAP_RE = re.compile(r"///|[\r\n][:;\\]*#")


def py_gap(v):
    """pre-filter mirroring MSD!InEscapeGap (TLC's own predicate is the authority)"""
    return v is not None and bool(_GAP_RE.search(v))


def rand_value(rng, maxlen=12):
    for _ in range(50):
        v = rand_text(rng, maxlen)
        if not py_gap(v):
            return v
    return ""


KEY_CHARS = "ABCXYZ0189_"


KNOWN_KEYS = ["STOPS", "FREEZES", "BGCHANGES", "ANIMATIONS", "TITLE", "BPMS", "ATTACKS", "DISPLAYBPM", "NOTES2", "NOTES", "MUSIC", "BANNER",
              "BACKGROUND", "JACKET", "CDTITLE", "LYRICSPATH", "VERSION", "OFFSET"]


def rand_key(rng, forbid=("NOTES",), allow_meta=True):
    if rng.random() < 0.15:
        # a known property or a legacy alias of one (an alias next to its standard key is just another key)
        k = rng.choice(KNOWN_KEYS)
        if k not in forbid:
            return k
    for _ in range(50):
        n = rng.randint(1, 6)
        k = "".join(rng.choice(KEY_CHARS) for _ in range(n))
        if allow_meta and rng.random() < 0.15:
            k += rng.choice([":", ";", "\\", "//", " ", "猫"]) + rng.choice(KEY_CHARS)
        if allow_meta and rng.random() < 0.12:
            # characters that mean something to format strings, patterns and shells - and nothing to MSD
            k = rng.choice(["A{B}", "X{}", "K{0}", "A{{B}}", "P%S", "100%", "K[1]", "A*", "Q?", "K.1", "A-B", "(X)", "$V", "^K", "A|B", "K+", "IT'S",
                            'Q"T', "K=V", "K,L", "K&L", "~K", "@K", "`K`", "!K", "<K>"]) + rng.choice(["", "", rng.choice(KEY_CHARS)])
        if allow_meta and rng.random() < 0.1:
            # blanks at either end belong to the key (" K", "TITLE ", "X\t")
            k = rng.choice([" " + k, k + " ", k + "\t", "  " + k + " ", "TITLE ", " VERSION", "NOTES "])
        if k not in forbid and k.upper() == k and not py_gap(k) and "#" not in k:
            return k
    return "K"


BOUNDARIES = [512, 1024, 2048, 4096, 8192, 16384, 65536]


def boundary_objects(fmt, rng, deltas=range(-3, 4)):
    """simfiles with ONE long value laid out so that an escaped character of the emitted text falls on or next
    to a buffer-sized offset (0.5 KiB ... 64 KiB); the long value is the first property, or follows others"""
    from simfile.sm import SMSimfile
    from simfile.ssc import SSCSimfile
    cls = SMSimfile if fmt == "sm" else SSCSimfile
    for b in BOUNDARIES:
        for d in deltas:
            for first in (True, False):
                sf = cls(string="")
                if fmt == "ssc":
                    sf["VERSION"] = "0.83"
                if not first:
                    sf["TITLE"] = "t"
                key = rng.choice(["CREDIT", "TITLE2", "X"])
                before = len(str(sf))
                npre = b + d - before - 2 - len(key)
                if npre < 0:
                    continue
                sf[key] = "x" * npre + rng.choice([":", ";", "\\", ":;", "\\\\", "//", "//"]) + rng.choice(["tail", "", " "])
                yield sf, {"boundary": b, "delta": d, "first": first}
    # ... and so that it falls on / next to such an offset of the VALUE itself (a property's value; a chart's note data)
    from simfile.sm import SMChart
    from simfile.ssc import SSCChart
    for b in BOUNDARIES:
        for d in deltas:
            seq = "//" if d in (-2, -1) else rng.choice(["//", ":", ";", "\\", "//x//"])      # ('//' straddling the offset: always)
            body = "0" * (b + d) + seq + rng.choice(["1111\n2222", "", "tail"])
            sf = cls(string="")
            if fmt == "ssc":
                sf["VERSION"] = "0.83"
            sf["TITLE"] = "t"
            sf[rng.choice(["CREDIT", "X", "ATTACKS"])] = body
            yield sf, {"boundary": b, "delta": d, "value_offset": True}
            sf = cls(string="")
            if fmt == "ssc":
                sf["VERSION"] = "0.83"
            sf["TITLE"] = "t"
            if fmt == "sm":
                sf.charts.append(SMChart.from_msd(["dance-single", "", "Hard", "9", "0,0,0,0,0", body.strip()]))
            else:
                c = SSCChart()
                c["STEPSTYPE"] = "dance-single"
                c[rng.choice(["NOTES", "NOTES2"])] = body
                sf.charts.append(c)
            yield sf, {"boundary": b, "delta": d, "value_offset": True, "chart": True}


def corpus_files():
    out = []
    base = os.path.join(REPO, "testdata")
    for root, _, files in sorted(os.walk(base)):
        for f in sorted(files):
            if f.lower().endswith((".sm", ".ssc")):
                out.append(os.path.join(root, f))
    return out


# ---- TLC trace validation -----------------------------------------------------------------------

def validate(ctx, recs, name="Trace_Codec", parallel=16, timeout=3000):
    """returns {id: clause}"""
    if not recs:
        return {}
    parts = core.chunks(recs, parallel)
    jobs = []
    for part in parts:
        text = "".join(json.dumps(r, ensure_ascii=True) + "\n" for r in part)
        jobs.append(dict(module="Trace_Codec", cfg="SPECIFICATION Spec\n", dirs=DIRS,
                         files={"trace.ndjson": text}, env={"TRACE_FILE": "trace.ndjson"},
                         timeout=timeout, heap="2g"))
    results = tlc.run_many(jobs, parallel=parallel)
    verdict = {}
    at = validate.at = {}
    for res in results:
        tlc.require_ok(res, name)
        ctx.states += res.distinct
        ctx.transitions += res.generated
        for v in res.printed:
            verdict[v["id"]] = v["clause"]
            at[v["id"]] = v.get("at", 0)
    ctx.tlc_runs.append({"name": "%s x%d" % (name, len(jobs)),
                         "distinct": sum(r.distinct for r in results),
                         "generated": sum(r.generated for r in results),
                         "wall_s": round(max(r.wall for r in results), 1)})
    if len(verdict) != len(recs):
        raise core.MachineryError("%s: %d verdicts for %d records" % (name, len(verdict), len(recs)))
    return verdict
