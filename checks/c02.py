"""C02 — SSC simfile: serialize then parse gives back the same simfile (see c01.py)."""
from . import c01


def run(ctx):
    c01.run_fmt(ctx, "ssc")


replay = c01.replay
