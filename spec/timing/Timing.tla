------------------------------- MODULE Timing -------------------------------
(* The beat <-> time engine of simfile.timing.engine.                         *)
(*                                                                            *)
(* Positions are integers in units of q = 1/26880 beat (26880 = 768 * 5 * 7; a tick, *)
(* 1/48 beat, is TICK = 560 q), so probes and note rows may lie off the tick grid    *)
(* (rows per measure of 5, 7, 10, ...); events are tick-aligned.                     *)
(* Timing data:                                                                *)
(*   td == [bpms   : Seq([b, u]),  bpms[1].b = 0, strictly increasing b        *)
(*          stops  : Seq([b, u]), delays : Seq([b, u]),                        *)
(*          warps  : Seq([b, len])]   (len > 0, in q, already tick-rounded)    *)
(* A time is kept as an exact LINEAR FORM over the timing data's own values:   *)
(*   L == [seg : [1..#bpms -> Int]   q elapsed outside warps under BPM i       *)
(*         st  : [1..#stops -> 0..2] halves of stop s counted (2 = all of it)  *)
(*         dl  : [1..#delays -> 0..2]]                                          *)
(* time = -offset + SUM seg[i] * (60 / (768 * bpm_i)) + SUM st[s]/2 * stop_s + ... *)
(* All coefficients are positive, so L1 <= L2 componentwise decides            *)
(* time(L1) <= time(L2) for linear forms of one timeline, whatever the BPMs.   *)
(* The `u` fields (duration of one q at that BPM / of the pause, in units U =  *)
(* 1/286720 s) are used only on the "smooth" sub-domain where every value is a   *)
(* small integer and TLC evaluates times itself: Val(td, L).                   *)
EXTENDS Integers, Sequences, FiniteSets, Rat

TICK == 560
T_WARP == 0  T_WARP_END == 1  T_BPM == 2  T_DELAY == 3  T_DELAY_END == 4  T_STOP == 5  T_STOP_END == 6
Tags == 0..6

NB(td) == Len(td.bpms)
L0(td) == [seg |-> [i \in 1..NB(td) |-> 0], st |-> [s \in 1..Len(td.stops) |-> 0], dl |-> [d \in 1..Len(td.delays) |-> 0]]
LLeq(a, b) == /\ \A i \in DOMAIN a.seg : a.seg[i] <= b.seg[i]
              /\ \A s \in DOMAIN a.st : a.st[s] <= b.st[s]
              /\ \A d \in DOMAIN a.dl : a.dl[d] <= b.dl[d]
LLess(a, b) == LLeq(a, b) /\ a # b

RECURSIVE SumTo(_, _)
SumTo(f, n) == IF n = 0 THEN 0 ELSE f[n] + SumTo(f, n - 1)
Val(td, L) == SumTo([i \in 1..NB(td) |-> L.seg[i] * td.bpms[i].u], NB(td))
              + SumTo([s \in 1..Len(td.stops) |-> (L.st[s] * td.stops[s].u) \div 2], Len(td.stops))
              + SumTo([d \in 1..Len(td.delays) |-> (L.dl[d] * td.delays[d].u) \div 2], Len(td.delays))

-----------------------------------------------------------------------------
(* DECLARATIVE timeline                                                       *)
InW(td, x) == \E w \in DOMAIN td.warps : td.warps[w].b <= x /\ x < td.warps[w].b + td.warps[w].len
WarpPoints(td) == {td.warps[w].b : w \in DOMAIN td.warps} \cup {td.warps[w].b + td.warps[w].len : w \in DOMAIN td.warps}
(* length of [lo, hi) covered by the union of the warps: sum over the elementary intervals  *)
(* between consecutive warp boundary points                                                   *)
WarpLen(td, lo, hi) ==
  LET P == WarpPoints(td)
      nxt(p) == LET later == {x \in P : x > p} IN CHOOSE x \in later : \A y \in later : x <= y
      inner == {p \in P : (\E x \in P : x > p) /\ InW(td, p)}
      ov(p) == LET a == IF p > lo THEN p ELSE lo
                   b == IF nxt(p) < hi THEN nxt(p) ELSE hi
               IN IF b > a THEN b - a ELSE 0
      RECURSIVE S(_)
      S(Q) == IF Q = {} THEN 0 ELSE LET p == CHOOSE x \in Q : TRUE IN ov(p) + S(Q \ {p})
  IN S(inner)
NonWarp(td, lo, hi) == IF hi <= lo THEN 0 ELSE (hi - lo) - WarpLen(td, lo, hi)

SegLo(td, i) == td.bpms[i].b
SegQ(td, i, b) ==          \* q elapsed outside warps under BPM i before position b
  IF b < 0 THEN (IF i = 1 THEN b ELSE 0)
  ELSE LET hi == IF i < NB(td) /\ td.bpms[i + 1].b < b THEN td.bpms[i + 1].b ELSE b
       IN NonWarp(td, SegLo(td, i), hi)
TimeL(td, b, tag) ==
  [seg |-> [i \in 1..NB(td) |-> SegQ(td, i, b)],
   st  |-> [s \in 1..Len(td.stops) |-> IF td.stops[s].b < b \/ (td.stops[s].b = b /\ tag = T_STOP_END) THEN 2 ELSE 0],
   dl  |-> [d \in 1..Len(td.delays) |-> IF td.delays[d].b < b \/ (td.delays[d].b = b /\ tag >= T_DELAY_END) THEN 2 ELSE 0]]

BpmAt(td, b) ==            \* index of the BPM change in force at b
  LET S == {i \in 1..NB(td) : td.bpms[i].b <= b} IN IF S = {} THEN 1 ELSE CHOOSE i \in S : \A j \in S : i >= j
PauseOn(td, b) == (\E s \in DOMAIN td.stops : td.stops[s].b = b) \/ (\E d \in DOMAIN td.delays : td.delays[d].b = b)
Hittable(td, b) == ~(InW(td, b) /\ ~PauseOn(td, b))

-----------------------------------------------------------------------------
(* beat_at as a RELATION between a time (a linear form lt of this timeline, or *)
(* a number on the smooth sub-domain), a tag and the answer B.                  *)
(* Present(b): the song "is on" tick b at that time.                            *)
PresentL(td, lt, b) == LLeq(TimeL(td, b, T_WARP), lt) /\ LLeq(lt, TimeL(td, b, T_STOP_END))
PresentN(td, t, b) == Val(td, TimeL(td, b, T_WARP)) <= t /\ t <= Val(td, TimeL(td, b, T_STOP_END))

BeatAtOK_Gen(pres(_), within, tag, B) ==
  /\ B % TICK = 0
  /\ IF pres(B) THEN /\ (tag = T_WARP => ~pres(B - TICK))      \* where the stretch starts
                     /\ (tag = T_STOP => ~pres(B + TICK))      \* default: the furthest beat reached
     ELSE /\ ~pres(B - TICK) /\ ~pres(B + TICK)               \* between ticks: the nearest one
          /\ within
BeatAtOKL(td, lt, tag, B) ==
  BeatAtOK_Gen(LAMBDA b : PresentL(td, lt, b),
               LLeq(TimeL(td, B - TICK \div 2, T_STOP), lt) /\ LLeq(lt, TimeL(td, B + TICK \div 2, T_STOP)), tag, B)
BeatAtOKN(td, t, tag, B) ==
  BeatAtOK_Gen(LAMBDA b : PresentN(td, t, b),
               Val(td, TimeL(td, B - TICK \div 2, T_STOP)) <= t /\ t <= Val(td, TimeL(td, B + TICK \div 2, T_STOP)), tag, B)

-----------------------------------------------------------------------------
(* OPERATIONAL engine: tagged events in (beat, tag) order, one state per event *)
CoalesceWarps(ws) ==       \* -> sequence of [b, e] merged segments, as the library merges them
  LET RECURSIVE C(_, _)
      C(k, acc) ==
        IF k > Len(ws) THEN acc
        ELSE LET w == ws[k]  e == w.b + w.len IN
             IF acc # <<>> /\ w.b <= acc[Len(acc)].e
             THEN C(k + 1, IF e > acc[Len(acc)].e THEN [acc EXCEPT ![Len(acc)].e = e] ELSE acc)
             ELSE C(k + 1, Append(acc, [b |-> w.b, e |-> e]))
  IN C(1, <<>>)

EventSet(td) ==
  LET cw == CoalesceWarps(td.warps) IN
  {[b |-> cw[k].b, tag |-> T_WARP, idx |-> k] : k \in DOMAIN cw}
  \cup {[b |-> cw[k].e, tag |-> T_WARP_END, idx |-> k] : k \in DOMAIN cw}
  \cup {[b |-> td.bpms[i].b, tag |-> T_BPM, idx |-> i] : i \in 2..NB(td)}
  \cup {[b |-> td.delays[d].b, tag |-> T_DELAY, idx |-> d] : d \in DOMAIN td.delays}
  \cup {[b |-> td.delays[d].b, tag |-> T_DELAY_END, idx |-> d] : d \in DOMAIN td.delays}
  \cup {[b |-> td.stops[s].b, tag |-> T_STOP, idx |-> s] : s \in DOMAIN td.stops}
  \cup {[b |-> td.stops[s].b, tag |-> T_STOP_END, idx |-> s] : s \in DOMAIN td.stops}
EvLess(x, y) == x.b < y.b \/ (x.b = y.b /\ x.tag < y.tag)
RECURSIVE SortEv(_)
SortEv(S) == IF S = {} THEN <<>> ELSE LET m == CHOOSE x \in S : \A y \in S : x = y \/ EvLess(x, y) IN <<m>> \o SortEv(S \ {m})
Events(td) == SortEv(EventSet(td))

State0(td) == [b |-> 0, tag |-> T_BPM, idx |-> 1, L |-> L0(td), bpm |-> 1, warp |-> FALSE]
(* time from a state to (b, tag), as a linear-form increment *)
AddUntil(td, s, b, tag) ==
  LET L1 == IF s.warp THEN s.L ELSE [s.L EXCEPT !.seg[s.bpm] = @ + (b - s.b)] IN
  IF s.tag = T_STOP /\ tag \in {T_STOP_END, T_DELAY_END} THEN [L1 EXCEPT !.st[s.idx] = @ + 2]
  ELSE IF s.tag = T_DELAY /\ tag \in {T_STOP_END, T_DELAY_END} THEN [L1 EXCEPT !.dl[s.idx] = @ + 2]
  ELSE L1
Advance(td, s, ev) ==
  [b |-> ev.b, tag |-> ev.tag, idx |-> ev.idx, L |-> AddUntil(td, s, ev.b, ev.tag),
   bpm |-> IF ev.tag = T_BPM THEN ev.idx ELSE s.bpm,
   warp |-> IF ev.tag = T_WARP THEN TRUE ELSE IF ev.tag = T_WARP_END THEN FALSE ELSE s.warp]

RECURSIVE RunStates(_, _, _)
RunStates(td, evs, acc) == IF evs = <<>> THEN acc ELSE RunStates(td, Tail(evs), Append(acc, Advance(td, acc[Len(acc)], Head(evs))))
States(td) == RunStates(td, Events(td), <<State0(td)>>)

(* last state at or before (b, tag); the first state for anything earlier *)
PriorIdx(sts, b, tag) ==
  LET S == {k \in DOMAIN sts : sts[k].b < b \/ (sts[k].b = b /\ sts[k].tag <= tag)} IN
  IF S = {} THEN 1 ELSE CHOOSE k \in S : \A j \in S : k >= j
TimeOp(td, sts, b, tag) == LET s == sts[PriorIdx(sts, b, tag)] IN AddUntil(td, s, b, tag)
BpmOp(td, sts, b) == IF b < 0 THEN 1 ELSE sts[PriorIdx(sts, b, T_BPM)].bpm
HittableOp(sts, b) ==
  LET s == sts[PriorIdx(sts, b, T_STOP_END)] IN
  IF ~s.warp THEN TRUE ELSE s.tag \in {T_STOP_END, T_DELAY_END} /\ s.b = b

(* beat_at on the smooth sub-domain (times are integers in U) *)
BeatAtOp(td, sts, t, tag) ==
  LET tm(k) == Val(td, sts[k].L)
      S == {k \in DOMAIN sts : tm(k) <= t}
      last == IF S = {} THEN 1 ELSE CHOOSE k \in S : \A j \in S : k >= j
      RECURSIVE Back(_)
      Back(k) == IF k > 1 /\ tm(k) = t /\ sts[k].tag > tag THEN Back(k - 1) ELSE k
      k == Back(last)
      s == sts[k]
  IN IF s.tag \in {T_STOP, T_DELAY} THEN s.b
     ELSE s.b + TICK * RRound(<<t - tm(k), TICK * td.bpms[s.bpm].u>>)      \* elapsed ticks, rounded half-even to a tick
=============================================================================
