-------------------------------- MODULE Rat ---------------------------------
(* Exact rationals as pairs <<num, den>> with den > 0, kept in lowest terms. *)
(* TLC integers are 32-bit: users keep numerators/denominators small.        *)
EXTENDS Integers, Sequences

Abs(x) == IF x < 0 THEN -x ELSE x
RECURSIVE GCDn(_, _)
GCDn(a, b) == IF b = 0 THEN a ELSE GCDn(b, a % b)
GCD(a, b) == GCDn(Abs(a), Abs(b))
LCM(a, b) == IF a = 0 \/ b = 0 THEN 0 ELSE (Abs(a) \div GCD(a, b)) * Abs(b)

Norm(r) == LET n == IF r[2] < 0 THEN -r[1] ELSE r[1]
               d == Abs(r[2])
               g == GCD(n, d)
           IN IF g = 0 THEN <<0, 1>> ELSE <<n \div g, d \div g>>
RInt(k) == <<k, 1>>
RAdd(a, b) == Norm(<<a[1] * b[2] + b[1] * a[2], a[2] * b[2]>>)
RSub(a, b) == Norm(<<a[1] * b[2] - b[1] * a[2], a[2] * b[2]>>)
RMul(a, b) == Norm(<<a[1] * b[1], a[2] * b[2]>>)
RDiv(a, b) == Norm(<<a[1] * b[2], a[2] * b[1]>>)          \* b # 0
RNeg(a) == <<-a[1], a[2]>>
RLess(a, b) == a[1] * b[2] < b[1] * a[2]
RLeq(a, b) == a[1] * b[2] <= b[1] * a[2]
REq(a, b) == a[1] * b[2] = b[1] * a[2]
(* floor(a) for den > 0: TLC's \div rounds toward minus infinity *)
RFloor(a) == a[1] \div a[2]
RFloorDiv(a, b) == RFloor(RDiv(a, b))
RMod(a, b) == RSub(a, RMul(RInt(RFloorDiv(a, b)), b))
(* round half to even, as Python's round() on a Fraction *)
RRound(a) ==
  LET f == RFloor(a)
      twice == 2 * (a[1] - f * a[2])        \* 2 * fractional part * den
  IN IF twice < a[2] THEN f
     ELSE IF twice > a[2] THEN f + 1
     ELSE IF f % 2 = 0 THEN f ELSE f + 1
=============================================================================
