--------------------------- MODULE Trace_Library ----------------------------
(* Validates recorded runs of simfile.open_with_detected_encoding / mutate.    *)
(* A record carries the observed filesystem after EVERY filesystem call (the    *)
(* proxy snapshots all files), so each invariant of the protocol is evaluated   *)
(* in every observed state.                                                      *)
(*  r.names [in, out, bak]; r.tried; r.decin: enc -> text id of the input's      *)
(*  original content (0 = does not decode); r.snaps: sequence of                 *)
(*  [op, name, mode, enc, ok, fs : name -> [c, partial]]  (c = content id, 0 =   *)
(*  absent), snaps[1] is the initial state; r.exit: index of the snapshot taken  *)
(*  when the with-block's body finished (0 = never entered); r.outcome           *)
(*  "normal" | "cancel" | "raise:<class>"; r.exc: exception class that escaped;  *)
(*  r.savefail: "" | "unserializable" | "unencodable" | "fault";                 *)
(*  r.parsed: content id (string) -> object id under the detected encoding;      *)
(*  r.entry, r.exitobj: object ids at block entry / exit; r.det: encoding the    *)
(*  library reported / used; r.idem: [ran, sameenc, samebytes].                  *)
EXTENDS Library, Json, IOUtils, TLC
VARIABLE i
Recs == ndJsonDeserialize(IOEnv.TRACE_FILE)
N == Len(Recs)

DecIn(r) == [e \in {r.tried[k] : k \in DOMAIN r.tried} |-> IF r.decin[e] = 0 THEN NoText ELSE "t"]
Fs(r, k) == r.snaps[k].fs
FileNames(r) == DOMAIN Fs(r, 1)
Same(r, k, n) == Fs(r, k)[n] = Fs(r, 1)[n]
AbsentC == 0
Parsed(r, c) == r.parsed[ToString(c)]

(* which snapshots open the save target / any file for writing *)
IsWriteOpen(s) == s.op = "open" /\ s.mode = "w"
Tgt(r) == Target(r.names)

Clause(r) ==
  LET det == Detected(r.tried, DecIn(r))
      n == Len(r.snaps)
      last == Fs(r, n)
  IN
  IF r.savefail = "fault" /\ r.exit = 0 /\ ~NameClash(r.names) THEN      \* the fault hit while loading: nothing may change
       (IF \E k \in 1..n : Fs(r, k) # Fs(r, 1) THEN "filesystem-changed-although-loading-failed"
        ELSE IF r.exc = "" THEN "fault-swallowed" ELSE "")
  ELSE IF NameClash(r.names) THEN
       (IF r.exc = "ValueError" /\ n = 1 THEN "" ELSE "clashing-backup-name-not-refused-before-any-call")
  ELSE IF det = NoName THEN
       (IF r.exc # "UnicodeDecodeError" THEN "no-encoding-decodes-but-no-UnicodeDecodeError"
        ELSE IF \E k \in 1..n : Fs(r, k) # Fs(r, 1) THEN "filesystem-changed-although-nothing-decodes" ELSE "")
  ELSE IF r.exc = "UnicodeDecodeError" THEN "UnicodeDecodeError-although-an-encoding-decodes"
  ELSE IF r.det # det THEN "detected-encoding"
  ELSE IF \E k \in 1..n : \E f \in FileNames(r) : f \notin Allowed(r.names) /\ ~Same(r, k, f) THEN "other-file-changed"
  ELSE IF r.names.out # NoName /\ \E k \in 1..n : ~Same(r, k, r.names.in) THEN "input-changed-although-output-name-given"
  ELSE IF \E k \in 1..n : r.snaps[k].op = "open" /\ r.snaps[k].mode = "w" /\ r.snaps[k].enc # det THEN "written-in-another-encoding"
  ELSE IF r.exit = 0 THEN (IF \E k \in 1..n : Fs(r, k) # Fs(r, 1) THEN "changed-before-the-block" ELSE "")
  ELSE IF \E k \in 1..r.exit : Fs(r, k) # Fs(r, 1) THEN "filesystem-changed-before-the-block-exits"
  ELSE IF r.outcome # "normal" THEN
       (IF \E k \in 1..n : Fs(r, k) # Fs(r, 1) THEN "body-raised-but-filesystem-changed"
        ELSE IF r.outcome = "cancel" /\ r.exc # "" THEN "CancelMutation-not-swallowed"
        ELSE IF r.outcome # "cancel" /\ "raise:" \o r.exc # r.outcome THEN "exception-not-propagated-unchanged"
        ELSE "")
  ELSE \* normal exit: the save sequence
  (* I3: whenever the save target is opened for writing, a requested backup is complete and holds the original *)
  IF r.names.bak # NoName /\ \E k \in 1..n :
        IsWriteOpen(r.snaps[k]) /\ r.snaps[k].name = Tgt(r) /\
        ~(LET b == Fs(r, k - 1)[r.names.bak] IN b.c # AbsentC /\ ~b.partial /\ Parsed(r, b.c) = r.entry)
     THEN "output-opened-before-backup-complete"
  ELSE IF r.savefail \in {"unserializable", "unencodable"} /\ \E k \in 1..n : ~Same(r, k, r.names.in)
     THEN "input-damaged-although-save-cannot-succeed"
  ELSE IF r.savefail \in {"unserializable", "unencodable"} /\ r.exc = "" THEN "unsavable-simfile-saved-silently"
  ELSE IF r.savefail = "fault" /\ r.faultop = "open" /\ r.faultmode = "w" /\ ~Same(r, n, r.names.in)
     THEN "input-damaged-although-open-for-write-was-refused"
  ELSE IF r.savefail = "fault" /\ r.exc = "" THEN "fault-swallowed"
  ELSE IF r.savefail # "" THEN ""
  ELSE IF r.exc # "" THEN "save-raised"
  ELSE IF last[Tgt(r)].c = AbsentC \/ last[Tgt(r)].partial THEN "output-missing-or-incomplete"
  ELSE IF Parsed(r, last[Tgt(r)].c) # r.exitobj THEN "output-does-not-parse-to-the-edited-simfile"
  ELSE IF r.names.bak # NoName /\ (last[r.names.bak].c = AbsentC \/ Parsed(r, last[r.names.bak].c) # r.entry) THEN "backup-does-not-parse-to-the-original"
  ELSE IF r.idem.ran /\ r.idem.sameenc /\ ~r.idem.samebytes THEN "second-no-op-mutate-changed-bytes"
  ELSE ""

(* "detect" records: the same path opened again on the same filesystem object after its content changed *)
DetectClause(r) ==
  LET det == Detected(r.tried, [e \in {r.tried[k] : k \in DOMAIN r.tried} |-> IF r.dec[e] = 0 THEN NoText ELSE "t"]) IN
  IF det = NoName THEN (IF r.exc = "UnicodeDecodeError" THEN "" ELSE "no-encoding-decodes-but-no-UnicodeDecodeError")
  ELSE IF r.exc # "" THEN "open-raised"
  ELSE IF r.got # det THEN "detected-encoding-after-content-change"
  ELSE IF ~r.sametext THEN "loaded-text-is-not-the-decoded-content"
  ELSE ""
ClauseOf(r) == IF r.kind = "detect" THEN DetectClause(r) ELSE Clause(r)

Init == i = 1
Next == i <= N /\ PrintT(ToJson([id |-> Recs[i].id, clause |-> ClauseOf(Recs[i])])) /\ i' = i + 1
Spec == Init /\ [][Next]_i
=============================================================================
